#!/usr/bin/env python3
"""Shared machinery: building the harness from /repo's working tree, running episodes in child
processes, running TLC, normalising traces for the TLA+ trace specs, evidence and exit codes."""
import json, os, re, shutil, subprocess, sys, tempfile, time, hashlib, glob

VERIF = os.path.dirname(os.path.dirname(os.path.abspath(__file__)))
REPO = os.environ.get('VERIF_REPO', '/repo')
SPEC = os.path.join(VERIF, 'spec')
NCPU = os.cpu_count() or 4

GOENV = dict(os.environ, GOFLAGS='-mod=mod', GOPROXY='off')
GOENV.pop('GOSUMDB', None)
GOENV.pop('GOTOOLCHAIN', None)


class Inconclusive(Exception):
    pass


def scratch_dir(tag):
    base = os.environ.get('VERIF_SCRATCH', '/var/tmp')
    os.makedirs(base, exist_ok=True)
    return tempfile.mkdtemp(prefix='verif-%s-' % tag, dir=base)


def log(*a):
    print(*a, file=sys.stderr, flush=True)


# ------------------------------------------------------------------ build

HARNESS = {
    '': ['gate.go', 'prog.go', 'proj.go', 'main_test.go', 'codec.go'],
}


def build_harness(scratch, race=False, pkg='.', files=None, name='varmq.test'):
    """go test -c of /repo's working tree with the harness files overlaid as extra _test files."""
    repl = {}
    pkgdir = os.path.normpath(os.path.join(REPO, pkg))
    for f in files or HARNESS['']:
        base = f[:-3]
        if base.endswith('_test'):
            base = base[:-5]
        repl[os.path.join(pkgdir, 'zz_verif_%s_test.go' % os.path.basename(base))] = os.path.join(VERIF, 'harness', f)
    ov = os.path.join(scratch, 'overlay-%s.json' % name)
    json.dump({'Replace': repl}, open(ov, 'w'))
    out = os.path.join(scratch, name + ('.race' if race else ''))
    cmd = ['go', 'test', '-c', '-vet=off', '-tags', 'verif', '-overlay', ov, '-o', out]
    if race:
        cmd.append('-race')
    cmd.append(pkg if pkg.startswith('.') else './' + pkg)
    t0 = time.time()
    r = subprocess.run(cmd, cwd=REPO, env=GOENV, capture_output=True, text=True)
    if r.returncode != 0:
        raise Inconclusive('harness build failed:\n' + r.stdout + r.stderr)
    log('built %s in %.1fs' % (os.path.basename(out), time.time() - t0))
    return out


# ------------------------------------------------------------------ episodes

def run_episodes(binary, progs, scratch, gomaxprocs=1, workers=None, tag='ep', timeout=120, race=False):
    """Runs the programs in child processes; returns (episodes, crashes).
    episodes: list of dicts {prog, header, events, end}; crashes: list of {prog, output}."""
    workers = workers or NCPU
    chunks = [[] for _ in range(workers)]
    for i, p in enumerate(progs):
        chunks[i % workers].append(p)
    chunks = [c for c in chunks if c]
    byid = {p['id']: p for p in progs}
    episodes, crashes = [], []
    pending = [(i, c) for i, c in enumerate(chunks)]
    rnd = 0
    while pending:
        rnd += 1
        procs = []
        for i, c in pending:
            pf = os.path.join(scratch, '%s-%d-%d.progs' % (tag, i, rnd))
            of = os.path.join(scratch, '%s-%d-%d.trace' % (tag, i, rnd))
            jf = os.path.join(scratch, '%s-%d-%d.journal' % (tag, i, rnd))
            with open(pf, 'w') as f:
                for p in c:
                    f.write(json.dumps(p) + '\n')
            env = dict(os.environ, VERIF_PROGS=pf, VERIF_OUT=of, VERIF_JOURNAL=jf, VERIF_GOMAXPROCS=str(gomaxprocs) if gomaxprocs else '')
            if race:
                env['GORACE'] = 'halt_on_error=0 exitcode=66'
            pr = subprocess.Popen([binary, '-test.run', '^TestVerifEpisodes$', '-test.timeout', '%ds' % timeout],
                                  env=env, stdout=subprocess.PIPE, stderr=subprocess.STDOUT, text=True)
            procs.append((i, c, pr, of, jf))
        nxt = []
        for i, c, pr, of, jf in procs:
            try:
                outp, _ = pr.communicate(timeout=timeout + 30)
            except subprocess.TimeoutExpired:
                pr.kill()
                outp, _ = pr.communicate()
                outp += '\n[verif] child killed after timeout'
            done = set()
            eps = parse_trace(of) if os.path.exists(of) else []
            for e in eps:
                if e.get('end') is not None:
                    e['prog'] = byid.get(e['header']['ep'])
                    e['child_output'] = outp if race else ''
                    episodes.append(e)
                    done.add(e['header']['ep'])
            rest = [p for p in c if p['id'] not in done]
            started = None
            if os.path.exists(jf):
                for ln in open(jf):
                    w = ln.split()
                    if w and w[0] == 'start':
                        started = w[1]
                    elif w and w[0] in ('done',):
                        started = None
            if rest:
                if started is not None and started in [p['id'] for p in rest]:
                    # the child died inside this episode
                    live = []
                    if os.path.exists(of + '.live'):
                        for ln in open(of + '.live'):
                            try:
                                live.append(json.loads(ln))
                            except Exception:
                                break
                    crashes.append({'prog': byid[started], 'output': outp[-6000:], 'events': live})
                    rest = [p for p in rest if p['id'] != started]
                elif pr.returncode != 0 and started is None and not done:
                    raise Inconclusive('episode child failed before running anything:\n' + outp[-3000:])
                if rest:
                    nxt.append((i, rest))
        pending = nxt
        if rnd > len(progs) + 5:
            raise Inconclusive('episode runner does not make progress')
    return episodes, crashes


def parse_trace(path):
    eps, cur = [], None
    with open(path) as f:
        for ln in f:
            ln = ln.strip()
            if not ln:
                continue
            try:
                e = json.loads(ln)
            except Exception:
                break
            if e.get('ev') == 'reset':
                cur = {'header': e, 'events': [], 'end': None}
                eps.append(cur)
            elif e.get('ev') == 'end':
                if cur is not None:
                    cur['end'] = e
            elif cur is not None:
                cur['events'].append(e)
    return eps


# ------------------------------------------------------------------ TLC

TLC_JAR = '/opt/veriftools/tla/tla2tools.jar'
CM_JAR = None


def _classpath():
    global CM_JAR
    if CM_JAR is None:
        c = glob.glob('/opt/veriftools/tla/*ommunity*.jar')
        CM_JAR = c[0] if c else ''
    return TLC_JAR + (':' + CM_JAR if CM_JAR else '')


def run_tlc(module, cfg, scratch, workers=None, extra=None, timeout=600, env=None, tag=None, heap='4g', depth_first=False, spec_dir=None, extra_modules=()):
    """Runs TLC on spec/<module>.tla with cfg (path); returns dict with stdout, states, distinct, violated invariant etc."""
    tag = tag or module
    wd = os.path.join(scratch, 'tlc-' + tag)
    if os.path.exists(wd):
        shutil.rmtree(wd)
    os.makedirs(wd)
    for f in glob.glob(os.path.join(spec_dir or SPEC, '*.tla')):
        shutil.copy(f, wd)
    for f in extra_modules:
        shutil.copy(f, wd)
    shutil.copy(cfg, os.path.join(wd, module + '.cfg'))
    jopts = ['-Xss64m', '-Xmx' + heap, '-XX:+UseParallelGC', '-XX:ParallelGCThreads=%d' % max(2, min(8, workers or 8))]
    if depth_first:
        jopts.append('-Dtlc2.tool.queue.IStateQueue=StateDeque')
    cmd = ['java'] + jopts + ['-cp', _classpath(), 'tlc2.TLC', '-metadir', os.path.join(wd, 'meta'), '-workers', str(workers or NCPU),
                              '-config', module + '.cfg'] + (extra or []) + [module + '.tla']
    e = dict(os.environ)
    e.pop('JAVA_TOOL_OPTIONS', None)
    if env:
        e.update(env)
    t0 = time.time()
    try:
        r = subprocess.run(cmd, cwd=wd, env=e, capture_output=True, text=True, timeout=timeout)
        out = r.stdout + r.stderr
        rc = r.returncode
    except subprocess.TimeoutExpired as ex:
        out = (ex.stdout or b'').decode() if isinstance(ex.stdout, bytes) else (ex.stdout or '')
        out += '\n[verif] TLC timeout'
        rc = -9
    res = {'out': out, 'rc': rc, 'wall': time.time() - t0, 'wd': wd}
    m = re.search(r'(\d+) states generated, (\d+) distinct states found', out)
    if m:
        res['generated'], res['distinct'] = int(m.group(1)), int(m.group(2))
    m = re.search(r'The depth of the complete state graph search is (\d+)', out)
    if m:
        res['depth'] = int(m.group(1))
    m = re.search(r'Invariant (\S+) is violated', out)
    if m:
        res['violated'] = m.group(1)
    m = re.search(r'Action property (\S+) is violated', out)
    if m:
        res['violated'] = m.group(1)
    m = re.search(r'Temporal property (\S+) was violated', out)
    if m:
        res['violated'] = res.get('violated') or m.group(1)
    if 'Temporal properties were violated' in out:
        res['violated'] = res.get('violated') or 'temporal'
    res['ok'] = ('Model checking completed. No error has been found' in out) or ('Finished computing initial states' in out and rc == 0)
    return res


def tlc_error_trace_states(out):
    """Parses 'State n: <...>' blocks of a TLC counterexample into a list of {var: text}."""
    states = []
    for blk in re.split(r'\nState \d+: ', out)[1:]:
        body = blk.split('\n\n')[0]
        lines = body.split('\n')
        st = {}
        cur = None
        for ln in lines[1:] if lines and lines[0].startswith('<') else lines:
            m = re.match(r'^/\\ (\w+) = (.*)$', ln)
            if m:
                cur = m.group(1)
                st[cur] = m.group(2)
            elif cur:
                st[cur] += '\n' + ln
        states.append(st)
    return states


# ------------------------------------------------------------------ evidence / exit codes

def write_evidence(pid, tier, seed, level, coverage, wall, violations=0, assumptions=None):
    evdir = os.environ.get('VERIF_EVIDENCE_DIR') or os.path.join(VERIF, 'evidence')
    os.makedirs(evdir, exist_ok=True)
    ev = {'property_id': pid, 'tier': tier, 'seed': seed, 'level': level, 'coverage': coverage,
          'assumptions': assumptions or [], 'wall_s': round(wall, 2), 'violations': violations}
    with open(os.path.join(evdir, pid + '.json'), 'w') as f:
        json.dump(ev, f, indent=1, sort_keys=True)
    return ev


def save_replay(pid, payload):
    rdir = os.environ.get('VERIF_REPLAY_DIR') or os.path.join(VERIF, 'replays')
    os.makedirs(rdir, exist_ok=True)
    h = hashlib.sha1(json.dumps(payload, sort_keys=True).encode()).hexdigest()[:10]
    path = os.path.join(rdir, '%s-%s.json' % (pid, h))
    with open(path, 'w') as f:
        json.dump(payload, f, indent=1)
    return path
