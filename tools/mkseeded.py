#!/usr/bin/env python3
"""Generates /verif/seeded/R*/ : the reverts of the fix: commits (and a few equivalent changes) as patches against /repo HEAD.
Each is applied to a scratch copy to produce patch.diff; nothing is committed to /repo."""
import json, os, subprocess, shutil, sys, tempfile
V = os.path.dirname(os.path.dirname(os.path.abspath(__file__)))
R = '/repo'

def sub(path, old, new, count=1):
    return (path, old, new, count)

SPECS = [
 ('R01', ['C01', 'C03'], 'revert of fix 1ac3234: the idle-worker remover ignores the result of Remove', 'idle expiry configured, the dispatcher pops a node between the remover\'s snapshot and its Remove',
  [sub('worker.go', "\t\t\t\t\tif w.pool.Remove(node) {\n\t\t\t\t\t\tvhook(\"reap.removed\", node)\n\t\t\t\t\t\tnode.Value.Stop()\n\t\t\t\t\t\tw.pool.Cache.Put(node)\n\t\t\t\t\t\tvhook(\"reap.stopped\", node)\n\t\t\t\t\t}",
       "\t\t\t\t\tw.pool.Remove(node)\n\t\t\t\t\t{\n\t\t\t\t\t\tvhook(\"reap.removed\", node)\n\t\t\t\t\t\tnode.Value.Stop()\n\t\t\t\t\t\tw.pool.Cache.Put(node)\n\t\t\t\t\t\tvhook(\"reap.stopped\", node)\n\t\t\t\t\t}")]),
 ('R03', ['C06'], 'revert of fix e03e9ca: curProcessing is raised after the dequeue, not before', 'WaitUntilFinished called between the dispatcher\'s dequeue and its increment',
  [sub('worker.go', "\tfor {\n\t\tprocessing := w.curProcessing.Load()\n\t\tvhook(\"disp.cas.load\")\n\n\t\tif processing >= w.concurrency.Load() {\n\t\t\treturn nil\n\t\t}\n\n\t\tif w.curProcessing.CompareAndSwap(processing, processing+1) {\n\t\t\tbreak\n\t\t}\n\t}\n", "\tvhook(\"disp.cas.load\")\n\treserved := false\n"),
   sub('worker.go', "\tvhook(\"disp.deq\", v, ok, ackId)\n", "\tvhook(\"disp.deq\", v, ok, ackId)\n\tw.curProcessing.Add(1)\n\treserved = true\n"),
   sub('worker.go', "\t\tif !dispatched {\n\t\t\tw.releaseWaiters(", "\t\tif !dispatched && reserved {\n\t\t\tw.releaseWaiters(")]),
 ('R04', [], 'EQUIVALENT: revert of fix 77c7201 alone (Broadcast without w.mx): harmless since the event loop re-releases the waiters', 'nothing: the checks must stay quiet',
  [sub('worker.go', "\t\tw.mx.Lock()\n\t\tw.waiters.Broadcast()\n\t\tw.mx.Unlock()\n", "\t\tw.waiters.Broadcast()\n")]),
 ('R05', ['C06'], 'revert of fixes 77c7201 + 3f7d0b8: Broadcast without the mutex and no release when the event loop goes idle', 'a completion between a waiter\'s condition check and its Cond.Wait; or a Purge of the last pending jobs',
  [sub('worker.go', "\t\tw.mx.Lock()\n\t\tw.waiters.Broadcast()\n\t\tw.mx.Unlock()\n", "\t\tw.waiters.Broadcast()\n"),
   sub('worker.go', "\t\t\tw.releaseWaiters(w.curProcessing.Load())\n", "")]),
 ('R06', ['C09'], 'revert of fix d76b873: no re-check after the slot is reserved', 'PauseAndWait/Stop returns between the event loop\'s IsRunning check and its dispatch',
  [sub('worker.go', "\tif mayDispatch != nil && !mayDispatch() {\n\t\thandOver = true\n\t\treturn nil\n\t}\n", "")]),
 ('R07', ['C08'], 'revert of fix 6e26e26: every batch job closes the stream when it sees the counter at zero', 'the last two jobs of a batch finish together on two pool workers',
  [sub('group_job.go', "\tif gj.wgc.Done() {\n\t\tgj.Response.Close()\n\t}", "\tgj.wgc.Done()\n\n\tif gj.wgc.Count() == 0 {\n\t\tgj.Response.Close()\n\t}", 2)]),
 ('R08', ['C08'], 'revert of fix 9a68b78: the stream of an empty batch is never closed', 'AddAll with no items, then reading Results()/Errs()',
  [sub('group_job.go', "\tif bufferSize == 0 {\n\t\tgj.Response.Close()\n\t}\n", "", 2)]),
 ('R09', ['C14', 'C02'], 'revert of fix 03b5b64: start() refuses only a Running worker', 'binding another queue to a paused or stopped worker',
  [sub('worker.go', "\tif w.status.Load() != initiated {\n\t\treturn ErrRunningWorker\n\t}\n\tvhook(\"start.enter\")", "\tif w.IsRunning() {\n\t\treturn ErrRunningWorker\n\t}\n\tvhook(\"start.enter\")")]),
 ('R10', ['C15', 'C17'], 'revert of fix 79d60fc: a persistent priority queue is registered twice', 'binding a persistent priority queue next to other queues (round robin share, worker NumPending)',
  [sub('persistent_priority.go', "\t// newPriorityQueue registers pq with the worker\n", "\tw.queues.Register(pq)\n\n")]),
 ('R11', ['C16'], 'revert of fix 4a83ac2 (the three Add bodies of queue.go): Queued is stored after the job is visible', 'a fast worker finishes the job before the submitter stores Queued',
  [sub('queue.go', "\t// must precede Enqueue: once visible, the job may already be Processing or Closed\n\tj.changeStatus(queued)\n\tvhook(\"add.pre\", j)\n\tif ok := q.internalQueue.Enqueue(j); !ok {\n\t\tvhook(\"add.enq\", j, false)\n\t\tj.Close()\n\t\treturn nil, false\n\t}\n\tvhook(\"add.enq\", j, true)\n\n\tq.w.Metrics().incSubmitted()\n",
       "\tvhook(\"add.pre\", j)\n\tif ok := q.internalQueue.Enqueue(j); !ok {\n\t\tvhook(\"add.enq\", j, false)\n\t\tj.Close()\n\t\treturn nil, false\n\t}\n\tvhook(\"add.enq\", j, true)\n\n\tq.w.Metrics().incSubmitted()\n\tj.changeStatus(queued)\n", 3)]),
 ('R12', ['C17'], 'revert of fix 5b95451: FIFO Len() reads its two counters without the lock', 'a reader between an Enqueue+Dequeue pair or a Purge',
  [sub('internal/queues/queue.go', "\tq.mx.RLock()\n\tdefer q.mx.RUnlock()\n\n\twriteCount", "\twriteCount")]),
 ('R13', ['C10'], 'revert of fix 0e304ea: Close and the dispatcher change the job status with check-then-store', 'Close between the dispatcher\'s closed-check and its store (or two concurrent Close calls)',
  [sub('job.go', "\tfor {\n\t\ts := j.status.Load()\n\t\tvhook(\"job.sp.load\", j)\n\n\t\tif s == closed {\n\t\t\treturn false\n\t\t}\n\n\t\tif j.status.CompareAndSwap(s, processing) {\n\t\t\treturn true\n\t\t}\n\t}", "\ts := j.status.Load()\n\tvhook(\"job.sp.load\", j)\n\n\tif s == closed {\n\t\treturn false\n\t}\n\n\tj.status.Store(processing)\n\n\treturn true"),
   sub('job.go', "\t\tif j.status.CompareAndSwap(s, closed) {\n\t\t\treturn nil\n\t\t}", "\t\tj.status.Store(closed)\n\n\t\treturn nil")]),
 ('R14', ['C14'], 'revert of fixes 975fa6b + c5d97bc: the context listener stops the worker whatever its current context is', 'Restart of a running worker configured WithContext',
  [sub('worker.go', "\tif listened != nil {\n\t\tw.mx.RLock()\n\t\tcurrent := w.ctx == listened\n\t\tw.mx.RUnlock()\n\n\t\tif !current {\n\t\t\treturn nil\n\t\t}\n\t}\n", "")]),
 ('R16', ['C18'], 'revert of fix 82a605b: the idle-worker remover goroutine never ends and Restart keeps the old ticker', 'Stop / Restart cycles of a worker with idle expiry',
  [sub('worker.go', "\t\t\tselect {\n\t\t\tcase <-stop:\n\t\t\t\treturn\n\t\t\tcase <-ticker.C:\n\t\t\t}\n", "\t\t\tselect {\n\t\t\tcase <-ticker.C:\n\t\t\t}\n")]),
 ('R18', ['C19'], 'revert of fix 3abfd3e: Response.res without mutex', 'a batch whose jobs finish concurrently (concurrency > 1)',
  [sub('internal/helpers/response.go', "\tc.mx.Lock()\n\tc.res = res\n\tc.mx.Unlock()\n", "\tc.res = res\n")]),
 ('R19', ['C06'], 'revert of fix b79bd24: no release of waiters on a stopped worker', 'two concurrent Stop calls, the second still waiting when the first has stored Stopped',
  [sub('worker.go', "w.IsPaused() || w.IsStopped() || (w.IsRunning()", "w.IsPaused() || (w.IsRunning()")]),
 ('R20', ['C03', 'C17'], 'revert of fix b789308 (hand-over part): a dispatch that backs out does not signal the current event loop', 'a superseded or paused-over event loop holds a slot while the live loop checks capacity',
  [sub('worker.go', "\t\tif handOver {\n\t\t\tw.notifyToPullNextJobs()\n\t\t}\n", "\t\t_ = handOver\n")]),
 ('R21', ['C10', 'C05'], 'revert of fix 4715654: Purge = Values(); Purge(); close the snapshot', 'a job enqueued between Values() and Purge()',
  [sub('queue.go', "\tif _, ok := eq.q.(IAcknowledgeable); !ok {", "\tif _, ok := eq.q.(IAcknowledgeable); !ok && false {")]),
 ('R22', ['C14'], 'revert of the lifecycle mutex: Stop and Restart interleave', 'the context listener\'s Stop (or a second caller) during Restart',
  [sub('worker.go', "\tw.lifecycleMx.Lock()\n\tdefer w.lifecycleMx.Unlock()\n", "", 2)]),
 ('R23', ['C18'], 'revert of the TunePool fix: shrink loop runs while pool.Len() != minimum', 'TunePool down with a min idle ratio whose minimum exceeds the pool size',
  [sub('worker.go', "w.pool.Len() > minIdleWorkers {", "w.pool.Len() != minIdleWorkers {")]),
 ('R24', ['C14'], 'revert of fix 66196b0: the context listener is spawned before the status store', 'a context that is already cancelled when the worker starts',
  [sub('worker.go', "\tdefer w.goListenToContext()\n\tdefer w.status.Store(running)\n\n\tw.goEventLoop()\n\tw.goRemoveIdleWorkers()\n", "\tdefer w.status.Store(running)\n\n\tw.goEventLoop()\n\tw.goRemoveIdleWorkers()\n\tw.goListenToContext()\n")]),
 ('R25', ['C14'], 'revert of fix 8503b28 (Resume part): Resume stores Running after its check', 'the context listener stops a paused worker between Resume\'s check and its store',
  [sub('worker.go', "\t\tif w.status.CompareAndSwap(paused, running) {\n\t\t\tbreak\n\t\t}\n", "\t\tw.status.Store(running)\n\t\tbreak\n")]),
 ('R26', ['C06'], 'revert of fix fa7eeb9: Stop does not wake the WaitUntilFinished callers', 'a Resume slips into a Stop in progress and is followed by WaitUntilFinished before Stop stores Stopped',
  [sub('worker.go', "\tdefer func() { w.releaseWaiters(w.curProcessing.Load()) }()\n", "")]),
 ('E01', [], 'EQUIVALENT: incCompleted after notify in the completion path, bigger initial FIFO segment', 'nothing: the checks must stay quiet',
  [sub('worker.go', "\t\tw.metrics.incCompleted()\n\t\tw.notifyToPullNextJobs()\n", "\t\tw.notifyToPullNextJobs()\n\t\tw.metrics.incCompleted()\n"),
   sub('internal/queues/queue.go', "initialBufferCapacity = 1024 ", "initialBufferCapacity = 2048 ")]),
]

def main():
    out = os.path.join(V, 'seeded')
    os.makedirs(out, exist_ok=True)
    tmp = tempfile.mkdtemp(prefix='seed-', dir='/var/tmp')
    try:
        subprocess.run(['git', '-C', R, 'worktree', 'add', '-q', '--detach', tmp + '/wt', 'HEAD'], check=True)
        wt = tmp + '/wt'
        for sid, props, what, needs, edits in SPECS:
            subprocess.run(['git', '-C', wt, 'checkout', '-q', '--', '.'], check=True)
            okall = True
            for path, old, new, count in edits:
                s = open(os.path.join(wt, path)).read()
                if s.count(old) != count:
                    print(sid, 'anchor mismatch in', path, s.count(old), '!=', count, repr(old[:60]))
                    okall = False
                    break
                open(os.path.join(wt, path), 'w').write(s.replace(old, new))
            if not okall:
                continue
            env = dict(os.environ, GOFLAGS='-mod=mod', GOPROXY='off')
            subprocess.run(['gofmt', '-w'] + sorted(set(e[0] for e in edits)), cwd=wt)
            b = subprocess.run(['go', 'build', './...'], cwd=wt, env=env, capture_output=True, text=True)
            if b.returncode != 0:
                print(sid, 'does not build:', b.stderr[-400:])
                continue
            t = subprocess.run(['go', 'test', '-vet=off', '-count=1', './...'], cwd=wt, env=env, capture_output=True, text=True)
            d = subprocess.run(['git', '-C', wt, 'diff'], capture_output=True, text=True).stdout
            sd = os.path.join(out, sid)
            os.makedirs(sd, exist_ok=True)
            open(os.path.join(sd, 'patch.diff'), 'w').write(d)
            json.dump({'id': sid, 'breaks': props, 'what': what, 'needs': needs, 'origin': 'revert of a fix: commit (written by hand against HEAD)',
                       'suite_passes_with_change': t.returncode == 0, 'ran': ['go build ./...', 'go test -vet=off -count=1 ./...']},
                      open(os.path.join(sd, 'meta.json'), 'w'), indent=1)
            print(sid, 'ok; suite', 'passes' if t.returncode == 0 else 'FAILS', len(d.splitlines()), 'diff lines')
    finally:
        subprocess.run(['git', '-C', R, 'worktree', 'remove', '--force', tmp + '/wt'])
        shutil.rmtree(tmp, ignore_errors=True)

if __name__ == '__main__':
    main()
