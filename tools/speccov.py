#!/usr/bin/env python3
"""speccov.py [configs...]: runs the model configurations with TLC's -coverage and reports, per action of VarMQ.tla, in how many
configurations it was taken at least once (an action taken nowhere is a vacuous part of the specification)."""
import sys, os, re, shutil, json
sys.path.insert(0, os.path.dirname(os.path.abspath(__file__)))
import vlib, models
names = sys.argv[1:] or [n for n, (c, o, t) in models.CONFIGS.items() if t == 'quick']
sc = vlib.scratch_dir('cov')
taken = {}
src = open(os.path.join(vlib.SPEC, 'VarMQ.tla')).read().split('\n')
defs = [(i + 1, m.group(1)) for i, l in enumerate(src) for m in [re.match(r'^(\w+)(\([\w, ]*\))? ==', l)] if m]
start_of = {n: st for st, n in defs}
ACTION = re.compile(r'^(C_|I_|W_|P_|R_|T_|U_|S_|SA_|SP_|RS_|ST_|X_|RP_|Rel_|D_|CT_|B_|LC_|Crash)')


def def_of(ln):
    name = None
    for start, n in defs:
        if start <= ln:
            name = n
        else:
            break
    return name if name and ACTION.match(name) else None

try:
    for n in names:
        r = models.run_model(n, sc, workers=4, timeout=900, extra=['-coverage', '1'])
        acts = {}
        # per definition of VarMQ.tla: the largest evaluation count of a sub-expression after its first line (the guard on pc):
        # zero means that the guard never held, i.e. the action was never taken in that configuration
        last = {}
        for m in re.finditer(r'line (\d+), col (\d+) to line (\d+), col \d+ of module VarMQ>?: (\d+)', r['out']):
            ln, cnt = int(m.group(1)), int(m.group(4))
            d = def_of(ln)
            if d and ln > start_of[d]:          # (beyond the first line, which is the guard on pc)
                last[d] = max(last.get(d, 0), cnt)
        for d, cnt in last.items():
            acts[d] = cnt
        for a, t in acts.items():
            taken.setdefault(a, {})[n] = t
        print(n, 'ok' if r.get('ok') else 'NOT OK', len(acts), 'actions', flush=True)
    never = sorted(a for a, d in taken.items() if not any(d.values()))
    print('actions', len(taken), 'never taken in any configuration:', never)
    json.dump({'configs': names, 'actions': {a: sum(1 for v in d.values() if v) for a, d in taken.items()}, 'never': never},
              open(os.path.join(vlib.VERIF, 'spec', 'coverage.json'), 'w'), indent=1, sort_keys=True)
finally:
    shutil.rmtree(sc, ignore_errors=True)
