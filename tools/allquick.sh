#!/bin/bash
# runs every quick check on the unchanged tree; prints the verdict lines
for p in C01 C02 C03 C04 C05 C06 C07 C08 C09 C10 C11 C12 C13 C14 C15 C16 C17 C18 C19; do
  s=$(date +%s)
  python3 tools/check.py $p --tier quick > ${VERIF_SCRATCH:-/var/tmp}/aq_$p.out 2> ${VERIF_SCRATCH:-/var/tmp}/aq_$p.err; rc=$?
  echo "$p exit=$rc secs=$(( $(date +%s) - s )) $(grep -c '^VIOLATION' ${VERIF_SCRATCH:-/var/tmp}/aq_$p.out) violations $(grep -c '^DIVERGENCE' ${VERIF_SCRATCH:-/var/tmp}/aq_$p.out) divergences $(grep -c '^INCONCLUSIVE' ${VERIF_SCRATCH:-/var/tmp}/aq_$p.out) inconclusive"
  grep '^VIOLATION\|^INCONCLUSIVE\|^DIVERGENCE' ${VERIF_SCRATCH:-/var/tmp}/aq_$p.out | cut -c1-300 | head -6
  grep 'formula ' ${VERIF_SCRATCH:-/var/tmp}/aq_$p.err | head -4
done
