# obs1.py <program.json | corpus entry> <property>: runs one program (VERIF_REPO selects the tree) and evaluates the property's formulas on its trace
import sys, json, os, shutil
sys.path.insert(0, '/verif/tools')
import vlib, check, obs
prog = json.load(open(sys.argv[1])); pid = sys.argv[2]
prog = prog.get('program', prog)
sc = vlib.scratch_dir('obs1')
try:
    b = vlib.build_harness(sc)
    free = prog['sched']['kind'] == 'free'
    eps, cr = vlib.run_episodes(b, [prog], sc, gomaxprocs=0 if free else 1, workers=1)
    invs = sorted(i for i, p in check.obs_invariants().items() if p == pid)
    for e in eps:
        print('result', e['end']['result'])
        v, r = check.tlc_obs_confirm(sc, e, invs, 'x')
        print('violated:', v)
        if not v and not r.get('ok'):
            print(r['out'][-2500:])
finally:
    shutil.rmtree(sc, ignore_errors=True)
