#!/usr/bin/env python3
"""Normalises recorded episodes into the line format consumed by spec/Obs.tla (every line has every
field, so the TLA+ side never touches a missing field). Pure bookkeeping: no judgement is made here."""
import json, re, os

BASE = {'ev': '', 'p': '', 'op': '', 'job': 0, 'qi': 0, 'b': 0, 'n': 0, 'res': '', 'ok': False, 'v': 0, 'id': '', 'idgen': False,
        'st': '', 'out': '', 'items': [], 'ecls': '', 'ekey': 0, 'wss': '', 'conc': 0, 'pendingb': 0,
        'msub': 0, 'mcomp': 0, 'msucc': 0, 'mfail': 0, 'blocked': [], 'pending': 0, 'qpending': [], 'processing': 0, 'idle': 0,
        'sub': 0, 'comp': 0, 'succ': 0, 'fail': 0, 'jst': {'0': ''}, 'cpool': 0, 'cloop': 0, 'creaper': 0, 'cctxl': 0, 'cdrain': 0,
        'peak': 0, 'curmax': 0, 'errs': 0, 'settled': False, 'cons': 0, 'csub': [], 'eseq': 0, 'ack': '', 'refused': False, 'ep': '', 'line': 0}


def errclass(s):
    if not s:
        return '', 0
    m = re.fullmatch(r'e(\d+)', s)
    if m:
        return 'e', int(m.group(1))
    m = re.search(r'panic recovered.*\bp(\d+)\b', s)
    if m:
        return 'p', int(m.group(1))
    return 'other', 0


def idkey(s, ws=False):
    # (episodes with cfg.wsids choose IDs with white space around them: only the exact string counts)
    m = re.fullmatch(r'(?:g:)? id-(\d+)\t' if ws else r'(?:g:)?id-(\d+)', s or '')
    return int(m.group(1)) if m else 0


def header(prog, ncpu):
    cfg = prog['cfg']
    jobs, batches, seen = [], [], set()
    for c in prog['clients']:
        for o in c['ops']:
            if o['op'] in ('Add', 'RawAd') and o.get('job', 0) not in seen:
                seen.add(o['job'])
                jobs.append({'key': o['job'], 'q': o.get('q', 0) + 1, 'prio': o.get('prio', 0), 'b': 0,
                             'out': prog.get('outcome', {}).get(str(o['job']), 'ok')})
            if o['op'] == 'AddAll':
                its = []
                for it in o.get('items') or []:
                    if it['job'] in seen:
                        continue
                    seen.add(it['job'])
                    its.append(it['job'])
                    jobs.append({'key': it['job'], 'q': o.get('q', 0) + 1, 'prio': it.get('prio', 0), 'b': o['b'],
                                 'out': prog.get('outcome', {}).get(str(it['job']), 'ok')})
                batches.append({'b': o['b'], 'q': o.get('q', 0) + 1, 'items': its})
    pre = []
    for e in cfg.get('preload') or []:
        if not e.get('raw') and e['job'] not in seen:
            seen.add(e['job'])
            pre.append(e['job'])
            jobs.append({'key': e['job'], 'q': 1, 'prio': e.get('prio', 0), 'b': 0, 'out': prog.get('outcome', {}).get(str(e['job']), 'ok')})
    queues = [] if cfg.get('nobind') else list(cfg.get('queues') or [])
    for c in prog['clients']:
        for o in c['ops']:
            if o['op'] == 'Bind':
                queues.append(o.get('kind', 'fifo'))
    queues = [{'wfifo': 'fifo', 'wprio': 'prio'}.get(k, k) for k in queues]        # (gate-instrumented wrappers of the same queues)
    h = dict(BASE)
    h.update({'ev': 'reset', 'ep': prog['id'], 'mode': 'free' if prog['sched']['kind'] == 'free' else 'gated',
              'wk': cfg.get('wk', 'plain'), 'hconc': cfg.get('conc', 1), 'ncpu': ncpu, 'queues': queues, 'jobs': jobs, 'batches': batches,
              'clients': [c['name'] for c in prog['clients']], 'expiry': cfg.get('expiry_us', 0), 'ratio': cfg.get('ratio', 0),
              'ctx': bool(cfg.get('ctx')), 'strategy': cfg.get('strategy') or 'rr', 'idgen': bool(cfg.get('idgen')), 'wsids': bool(cfg.get('wsids')), 'quiet': bool(cfg.get('quiet')),
              'nobind': bool(cfg.get('nobind')), 'family': prog.get('family', ''), 'consumers': cfg.get('consumers') or 1, 'preload': pre})
    # the handles of the other consumers of a shared queue are the same queue
    if (cfg.get('consumers') or 1) > 1:
        for j in jobs:
            j['q'] = 1
    h['conc'] = cfg.get('conc', 1)
    return h


def normalise(ep, ncpu):
    """ep: {'prog', 'events', ...} -> list of obs lines (dicts). A crashed episode has events == [] and ep['crash']."""
    prog = ep['prog']
    out = [header(prog, ncpu)]
    jobkeys = [str(j['key']) for j in out[0]['jobs']]
    pend_items = {}
    genids = {}

    curmax = [0]

    def mk(**kw):
        d = dict(BASE)
        d['ep'] = prog['id']
        d.update(kw)
        # the largest in-flight count (curProcessing, what NumProcessing() returns) the state projection showed at any hook since
        # the previous line: a reader at that moment would have obtained it
        d['curmax'] = curmax[0]
        curmax[0] = 0
        return d
    for e in ep.get('events', []):
        ev = e.get('ev')
        st = e.get('st')
        if isinstance(st, dict) and isinstance(st.get('cur'), int) and st['cur'] > curmax[0] and (prog['cfg'].get('consumers') or 1) == 1:
            curmax[0] = st['cur']
        if ev == 'call':
            items = [it['job'] for it in (e.get('items') or [])]
            pend_items[e['p']] = items
            if e['op'] == 'RawAd':
                e = dict(e, op='Add', q=0)
            out.append(mk(ev='call', p=e['p'], op=e['op'], job=e.get('job', 0), qi=e.get('q', 0) + 1, b=e.get('b', 0), n=e.get('n', 0),
                          items=items, line=e['seq']))
        elif ev == 'ret':
            if e['op'] == 'RawAd':
                e = dict(e, op='Add', q=0)
            d = mk(ev='ret', p=e['p'], op=e['op'], job=e.get('job', 0), qi=e.get('q', 0) + 1, b=e.get('b', 0), res=e.get('res', ''),
                   ok=bool(e.get('ok', False)), line=e['seq'])
            d['items'] = pend_items.pop(e['p'], []) if e['op'] == 'AddAll' else []
            if 'v' in e:
                d['v'] = e['v']
            if 'err' in e:
                d['ecls'], d['ekey'] = errclass(e['err'])
            if 'status' in e:
                d['st'] = e['status']
            if e['op'] == 'Status':
                d['st'] = e.get('res', '')
            if 'ws' in e:
                d['wss'] = e['ws']['s']
            if 'conc' in e:
                d['conc'] = e['conc']
            if 'pending' in e:
                d['pendingb'] = e['pending']
            for k in ('sub', 'comp', 'succ', 'fail'):
                if k in e:
                    d['m' + k] = e[k]
            if e['op'] == 'BatchRead':
                its = []
                for it in e.get('items') or []:
                    c, k = errclass(it.get('err', ''))
                    its.append({'k': idkey(it.get('id', ''), bool(prog['cfg'].get('wsids'))), 'v': it.get('v', 0), 'ecls': c, 'ekey': k})
                d['items'] = its
            out.append(d)
        elif ev == 'wf.enter':
            jid = str(e.get('id', ''))
            fresh = genids.setdefault(jid, e['job']) == e['job']          # the generator runs once per job: no two jobs share a generated ID
            out.append(mk(ev='enter', p=e['p'], job=e['job'], id=e.get('id', ''), idgen=jid.startswith(('gen-', 'g:gen-')) and fresh,
                          st=e.get('status', ''), cons=e.get('cons', 0), line=e['seq']))
        elif ev == 'wf.exit':
            out.append(mk(ev='exit', p=e['p'], job=e['job'], out=e.get('out', ''), st=e.get('status', ''), line=e['seq']))
        elif ev == 'disp.deq':
            if e.get('ok') and e.get('job', 0) > 0:
                out.append(mk(ev='deq', p=e['p'], job=e['job'], line=e['seq']))
        elif ev in ('ad.enq', 'ad.deq', 'ad.ack', 'ad.purge'):
            out.append(mk(ev='ad', p=e.get('p', ''), op=ev[3:], job=max(e.get('job', 0), 0), ok=bool(e.get('ok', False)), eseq=e.get('eseq', 0) + 1 if 'eseq' in e else 0,
                          ack=e.get('ack', ''), refused=bool(e.get('refused', False)), qi=e.get('a', 0) + 1, n=e.get('nsubs', 0), line=e['seq']))
        elif ev == 'quiescent':
            c = e.get('census') or {}
            jst = {'0': ''}
            for k in jobkeys:
                jst[k] = (e.get('jst') or {}).get(k, '')
            out.append(mk(ev='quiescent', p='harness', blocked=e.get('blocked') or [], wss=e['ws']['s'], pending=e['pending'],
                          qpending=e.get('qpending') or [], processing=e['processing'], idle=e['idle'], conc=e['conc'], sub=e['sub'],
                          comp=e['comp'], succ=e['succ'], fail=e['fail'], jst=jst, cpool=c.get('pool', 0), cloop=c.get('loop', 0),
                          creaper=c.get('reaper', 0), cctxl=c.get('ctxl', 0), cdrain=c.get('drain', 0), peak=e.get('peak', 0), errs=e.get('errs', 0),
                          settled=bool(e.get('settled', False)), csub=e.get('csub') or [], line=e['seq']))
        elif ev == 'codec':
            out.append(mk(ev='codec', ok=bool(e.get('ok')), res=e.get('what', ''), id=e.get('type', ''), line=e.get('seq', 0)))
    if ep.get('crash'):
        out.append(mk(ev='crash', res=ep['crash']))
    for r in ep.get('races', []):
        out.append(mk(ev='race', res=r))
    return out


def write_obs(episodes, path, ncpu):
    """Writes the concatenated obs trace; returns index: list of (first_line, last_line, episode)."""
    idx, n = [], 0
    with open(path, 'w') as f:
        for ep in episodes:
            lines = normalise(ep, ncpu)
            first = n + 1
            for d in lines:
                f.write(json.dumps(d) + '\n')
                n += 1
            idx.append((first, n, ep))
    return idx
