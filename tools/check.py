#!/usr/bin/env python3
"""Entry point of every registered check:  check.py <property id> [--tier quick|thorough]
   check.py --setup        build + self-test
   check.py --replay path  re-execute a saved replay
Exit 0: property held on everything explored; 1: VIOLATION (reproduced on the real code); 2: inconclusive."""
import argparse, json, os, re, shutil, sys, time, random
sys.path.insert(0, os.path.dirname(os.path.abspath(__file__)))
import vlib, obs, progs, models, m1, conform, distconf
from concurrent.futures import ThreadPoolExecutor
from vlib import log, Inconclusive

SPEC = vlib.SPEC


def obs_invariants():
    """name -> property id, for every Cxx_ formula of Obs.tla"""
    out = {}
    for ln in open(os.path.join(SPEC, 'Obs.tla')):
        m = re.match(r'^(C(\d\d)_\w+) ==', ln)
        if m:
            out[m.group(1)] = 'C' + m.group(2)
    return out


# property -> what is run.  gated/free: (families, episodes quick, episodes thorough)
PLAN = {
    'C01': {'gated': (['basic', 'ctl', 'cancel', 'pool', 'batch', 'barrier', ('tune', 2), 'reject', 'wq'], 88, 1000), 'free': (['basic', 'ctl', 'pool'], 64, 1200), 'model': ['MC_core']},
    'C02': {'gated': (['ctl', 'pool', 'basic', 'barrier', 'bind2', 'tune', 'wq', 'cycles'], 96, 950), 'free': (['ctl', 'pool'], 64, 1200), 'model': ['MC_core']},
    'C03': {'gated': (['basic', 'ctl', 'cancel', 'pool', 'barrier', 'batch', ('tune', 4), 'stop2', 'wq'], 96, 1100), 'free': (['basic', 'ctl', 'pool', 'cancel', 'storm'], 80, 1500), 'flood': (4, 40), 'model': ['MC_core']},
    'C05': {'gated': (['handle', 'basic', 'cancel', 'batch', 'reject'], 72, 800), 'free': (['handle', 'batch'], 64, 1200), 'model': ['MC_core']},
    'C06': {'gated': (['barrier', 'ctl', 'cancel', 'stop2', 'wq'], 80, 900), 'free': (['barrier', 'ctl'], 64, 1200), 'model': ['MC_core']},
    'C07': {'gated': (['handle', 'basic', 'batch'], 64, 750), 'free': (['handle', 'batch', 'storm'], 72, 1500), 'flood': (4, 40), 'model': []},
    'C08': {'gated': ([('batch', 5), 'reject'], 168, 1600), 'free': ([('batch', 3), 'storm'], 96, 2400), 'model': []},
    'C09': {'gated': (['ctl', 'barrier', 'stop2', 'wq'], 80, 900), 'free': (['ctl'], 64, 1200), 'model': ['MC_core']},
    'C10': {'gated': (['cancel', 'batch', 'reject', 'wq'], 80, 900), 'free': (['cancel'], 64, 1200), 'model': ['MC_core']},
    'C04': {'gated': (['basic', 'multi', 'barrier', 'cancel'], 64, 750), 'free': (['basic'], 48, 800), 'model': []},
    'C11': {'gated': ([('adapter', 3), 'distbind'], 72, 700), 'free': (['adapter'], 48, 800), 'model': [], 'crash': (40, 600)},
    'C12': {'gated': (['adapter'], 60, 625), 'free': (['adapter'], 48, 800), 'model': []},
    'C13': {'gated': (['dist', 'adapter', 'distbind'], 60, 625), 'free': (['dist'], 64, 1000), 'model': []},
    'C14': {'gated': ([('life', 3), 'stop2', 'cycles'], 60, 480), 'free': (['life'], 48, 600), 'model': [], 'life_exhaustive': (3, 4)},
    'C15': {'gated': (['multi', 'multim'], 80, 750), 'free': (['multi'], 32, 600), 'model': ['MC_multi']},
    'C16': {'gated': (['basic', 'handle', 'cancel', 'batch'], 64, 750), 'free': (['basic', 'handle'], 96, 2400), 'model': ['MC_core']},
    'C17': {'gated': (['basic', 'multi', 'cancel', 'ctl', 'reject', 'multim', 'wq'], 91, 1000), 'free': (['basic', 'multi'], 64, 1200), 'model': []},
    'C18': {'gated': (['pool', 'ctl', ('tune', 2), 'stop2', ('life', 2), ('cycles', 2), 'wq'], 100, 1050), 'free': (['pool'], 64, 1200), 'model': []},
}


# property -> model configurations of spec/VarMQ.tla: (quick, thorough extra, liveness configs)
MODEL_PLAN = {
    'C01': (['barrier', 'conc2'], ['cancel', 'stop', 'restart', 'tune', 'purge', 'ratio', 'expiry', 'prio'], ['barrier']),
    'C02': (['conc2', 'pause'], ['tune', 'restart', 'stop', 'ratio'], []),
    'C03': (['purge', 'expiry'], ['barrier', 'stop', 'restart', 'cancel2', 'tune', 'was'], ['barrier', 'pause', 'purge', 'cancel']),
    'C05': (['cancel', 'result'], ['purge', 'cancel2', 'conc2', 'batch', 'batchpurge'], ['cancel']),
    'C07': (['result', 'batch0'], ['batch', 'batchpurge'], []),
    'C08': (['batch', 'batch0'], ['batchpurge'], ['batch']),
    'C06': (['barrier', 'pause'], ['purge', 'stop2', 'pause2', 'was', 'cancel'], ['pause', 'barrier']),
    'C09': (['pause'], ['pause2', 'stop', 'restart', 'was'], []),
    'C10': (['cancel', 'purge'], ['qclose', 'cancel2'], []),
    'C11': (['adapter', 'crash', 'adapterfault'], ['crash2'], ['crash']),
    'C12': (['adapterfault'], ['adapter'], []),
    'C14': (['ctx0', 'pause', 'bind'], ['ctx', 'stop', 'stop2', 'restart', 'was', 'pause2', 'bindstop', 'bindctx', 'ctxpause', 'ctxpause2'], []),
    'C15': (['multirr', 'multimax'], ['multirr2', 'multimin', 'bind'], ['multirr']),
    'C16': (['barrier', 'cancel'], ['conc2', 'purge', 'prio'], []),
    'C17': (['conc2', 'pause', 'multirr'], ['tune', 'multimax', 'multirr2'], []),
    'C18': (['expiry', 'ctx0'], ['ratio', 'tune', 'stop', 'restart', 'ctx'], []),
}


def run_models(pid, tier, scratch):
    """exhaustive TLC runs of the property's model configurations; a model-level failure is inconclusive, never a verdict"""
    q, t, live = MODEL_PLAN.get(pid, ([], [], []))
    names = [(n, False) for n in q] + ([(n, False) for n in t] + [(n, True) for n in live] if tier == 'thorough' else [])
    if tier == 'quick' and live:
        names.append((live[0], True))
    out = []

    def one(nl):
        n, lv = nl
        r = models.run_model(n, scratch, live=lv, workers=vlib.NCPU, timeout=1500 if tier == 'quick' else 3600)
        return n, lv, r
    with ThreadPoolExecutor(1) as ex:
        for n, lv, r in ex.map(one, names):
            out.append({'config': n, 'liveness': lv, 'ok': bool(r.get('ok')), 'states': r.get('distinct', 0), 'transitions': r.get('generated', 0),
                        'depth': r.get('depth', 0), 'seconds': round(r['wall'], 1), 'violated': r.get('violated'),
                        'timeout': r.get('rc') == -9 and not r.get('violated')})
            if not r.get('ok'):
                import tlcsum
                log('model %s%s: %s\n%s' % (n, ' (liveness)' if lv else '', r.get('violated') or 'TLC error', (tlcsum.summarize(r['out'], 60) or r['out'][-1500:])))
    return out


# property -> configurations of spec/Dist.tla (several consumers on one adapter): (quick, thorough extra); "!name" = sensitivity
# self-test, a configuration of a known defect that TLC must report as violated
DIST_PLAN = {'C13': (['Dist_late', 'Dist_live'], ['Dist_share', '!Dist_gap', '!Dist_stoponerr']),
             'C11': (['Dist_late'], ['Dist_share']),
             'C12': (['Dist_late'], [])}


# property -> configurations of spec/ErrChan.tla (sendError / Errs / Stop / Restart on the error channel); both tiers (seconds).
# ErrChan_keep is the "keep the most recent error" change (seeded B_C03_2 / D_C07_1): TLC must show the sender that never returns
ERR_PLAN = {'C07': ['ErrChan_drop', 'ErrChan_noreader', '!ErrChan_keep'], 'C03': ['ErrChan_drop', 'ErrChan_noreader', '!ErrChan_keep']}


def run_dist_models(pid, tier, scratch):
    q, t = DIST_PLAN.get(pid, ([], []))
    out = []
    for name in q + (t if tier == 'thorough' else []) + ERR_PLAN.get(pid, []):
        expect_bad = name.startswith('!')
        cfg = name.lstrip('!')
        r = vlib.run_tlc('ErrChan' if cfg.startswith('ErrChan') else 'MC_dist', os.path.join(SPEC, 'cfg', cfg + '.cfg'), scratch, workers=vlib.NCPU, timeout=900, tag=cfg, heap='8g')
        ok = bool(r.get('violated')) if expect_bad else bool(r.get('ok'))
        out.append({'config': cfg, 'liveness': cfg.endswith('_live') or cfg.startswith('ErrChan'), 'ok': ok, 'states': r.get('distinct', 0), 'transitions': r.get('generated', 0),
                    'depth': r.get('depth', 0), 'seconds': round(r['wall'], 1), 'violated': r.get('violated'), 'expected_violation': expect_bad})
        if not ok:
            log('model %s: %s\n%s' % (cfg, r.get('violated') or 'TLC error', r['out'][-1500:]))
    return out


DS_FORMULAS = {'C01': 'C01_', 'C04': 'C04_', 'C15': 'C15_', 'C17': 'C17_'}
DS_HARNESS = {'queues': ('internal/queues', ['ds_queues.go', 'ds_queues_rt.go'], '^TestVerifDS$'),
              'helpers': ('internal/helpers', ['ds_manager.go'], '^TestVerifManager$')}


def run_ds(pid, tier, seed, scratch):
    """data-structure level: TLC on QueueDS / MC_manager, then operation logs of the real structures validated with TraceDS"""
    import subprocess
    stats = {'models': [], 'logs': []}
    found = []
    for mod, cfg in (('QueueDS', 'MC_fifo'), ('MC_manager', 'MC_manager')):
        if (pid in ('C04', 'C01') and cfg == 'MC_manager') or (pid == 'C15' and cfg == 'MC_fifo'):
            continue
        r = vlib.run_tlc(mod, os.path.join(SPEC, 'cfg', cfg + '.cfg'), scratch, workers=4, timeout=300, tag=cfg)
        stats['models'].append({'config': cfg, 'ok': bool(r.get('ok')), 'states': r.get('distinct', 0), 'transitions': r.get('generated', 0), 'violated': r.get('violated')})
    runs = []
    if pid in ('C04', 'C17', 'C01'):
        runs += [('queues', 'chunked', True, 200 if tier == 'quick' else 3000), ('queues', 'abstract', False, 3 if tier == 'quick' else 24)]
    if pid in ('C15', 'C17'):
        runs += [('helpers', 'mgr', False, 1)]
    bins = {}
    for pkgkey, mode, chunked, n in runs:
        pkg, files, test = DS_HARNESS[pkgkey]
        if pkgkey not in bins:
            bins[pkgkey] = vlib.build_harness(scratch, pkg=pkg, files=files, name=pkgkey + '.test')

        def once(tag):
            out = os.path.join(scratch, 'ds-%s-%s.ndjson' % (mode, tag))
            env = dict(os.environ, VERIF_DS_OUT=out, VERIF_SEED=str(seed), VERIF_DS_N=str(n), VERIF_DS_MODE=mode)
            p = subprocess.run([bins[pkgkey], '-test.run', test, '-test.timeout', '600s'], env=env, capture_output=True, text=True)
            if p.returncode != 0:
                raise Inconclusive('data-structure harness failed:\n' + (p.stdout + p.stderr)[-2000:])
            cfg = os.path.join(scratch, 'TraceDS-%s-%s.cfg' % (mode, tag))
            open(cfg, 'w').write('SPECIFICATION TSpec\nCONSTANTS InitCap = 2 MaxCap = 4 Vals = {1} MaxOps = 1000000 Chunked = %s\nCHECK_DEADLOCK FALSE\nINVARIANT Report\nPOSTCONDITION Consumed\n' % ('TRUE' if chunked else 'FALSE'))
            r = vlib.run_tlc('TraceDS', cfg, scratch, workers=1, env={'TRACE': out}, tag='tds-%s-%s' % (mode, tag), timeout=1500, heap='6g')
            if not r.get('ok') or 'VERIF-BAD' not in r['out']:
                raise Inconclusive('TLC (TraceDS) failed:\n' + r['out'][-3000:])
            tail = r['out'][r['out'].index('VERIF-BAD'):].split('Model checking completed')[0]
            bad = [(t.group(1), t.group(2), int(t.group(3))) for t in re.finditer(r'<<\s*"(\w+)",\s*"([^"]*)",\s*(\d+)\s*>>', tail)]
            return bad, r.get('distinct', 0), out
        bad, nlines, out = once('a')
        mine = [b for b in bad if b[0].startswith(DS_FORMULAS[pid])]
        # the segment layout (read/write indexes, capacities of the chunks) is the implementation's business: a difference from
        # spec/QueueDS.tla is a conformance divergence, not a failure of the property (which is about the order of the elements)
        conf = [b for b in bad if b[0].startswith('Conf_')]
        if conf:
            print('DIVERGENCE property=%s data structure log %s line=%d formula=%s (informational: the recorded operation log is not a behaviour of spec/QueueDS.tla)'
                  % (pid, conf[0][1], conf[0][2], conf[0][0]), flush=True)
        stats['logs'].append({'mode': mode, 'operations': nlines, 'failed_formulas': sorted(set(b[0] for b in mine)), 'conformance_divergences': len(conf)})
        if mine:
            bad2, _, out2 = once('b')      # reproduce
            again = [b for b in bad2 if b[0].startswith(DS_FORMULAS[pid])]
            if again:
                lines = open(out2).read().split('\n')
                found.append((again[0][0], {'property': pid, 'formula': again[0][0], 'ds_mode': mode, 'seed': seed, 'line': again[0][2],
                                            'operations_before': [json.loads(x) for x in lines[max(0, again[0][2] - 12):again[0][2]] if x]}))
            else:
                print('INCONCLUSIVE property=%s data-structure formula(s) %s failed once but not on re-execution' % (pid, sorted(set(b[0] for b in mine))), flush=True)
    return found, stats


def gen_obsrun(scratch, invs):
    """ObsRun.tla: Obs plus a history variable collecting <<formula, episode, line>> of every failing formula."""
    props = ',\n  '.join('<<"%s", %s>>' % (i, i) for i in invs)
    txt = '''---- MODULE ObsRun ----
EXTENDS Obs
VARIABLE bad
Props == <<
  %s >>
RunInit == Init /\\ bad = {}
\\* (the first failing line of a formula in an episode is enough: a formula that stays false must not make the set grow with every line)
RunNext == Next /\\ bad' = (IF hdr'.ep # hdr.ep THEN {} ELSE bad) \\cup {<<Props'[i][1], hdr'.ep, l>> : i \\in {k \\in DOMAIN Props' : ~(Props'[k][2]) /\\ ~\\E b \\in bad : b[1] = Props'[k][1] /\\ b[2] = hdr'.ep}}
           /\\ (hdr'.ep # hdr.ep /\\ bad # {} => PrintT(<<"VERIF-BAD", bad>>))      \\* (reported and forgotten at the end of the episode: the set stays small)
RunSpec == RunInit /\\ [][RunNext]_<<vars, bad>>
Report == l <= Len(Trace) \\/ PrintT(<<"VERIF-BAD", bad>>)
Consumed == TLCGet("stats").diameter - 1 = Len(Trace)
====
''' % props
    return txt


def tlc_obs_collect(scratch, trace_path, invs, tag):
    """pass 1: one TLC run over the concatenated trace; returns list of (formula, episode id, line)."""
    wd = os.path.join(scratch, 'obsrun-' + tag)
    os.makedirs(wd, exist_ok=True)
    cfg = os.path.join(wd, 'ObsRun.cfg')
    open(cfg, 'w').write('SPECIFICATION RunSpec\nCHECK_DEADLOCK FALSE\nINVARIANT Report\nPOSTCONDITION Consumed\n')
    mod = gen_obsrun(scratch, invs)
    r = run_tlc_with_extra(scratch, 'ObsRun', mod, cfg, trace_path, tag)
    if not r.get('ok'):
        out = r['out']
        i = out.find('Error:')
        # (TLC prints its coverage statistics after an evaluation error: the message itself is at the first "Error:")
        msg = out[i:i + 3000] if i >= 0 else out[-4000:]
        keep = os.path.join(os.environ.get('VERIF_REPLAY_DIR') or os.path.join(vlib.VERIF, 'replays'), 'obs-failure-%s' % tag)
        try:
            os.makedirs(keep, exist_ok=True)
            open(os.path.join(keep, 'tlc.out'), 'w').write(out)
            shutil.copy(trace_path, os.path.join(keep, 'trace.ndjson'))
            msg += '\n(TLC output and the trace chunk kept in %s)' % keep
        except Exception:
            pass
        raise Inconclusive('TLC (observation pass) failed:\n' + msg)
    bad = []
    if 'VERIF-BAD' not in r['out']:
        raise Inconclusive('TLC (observation pass) printed no report:\n' + r['out'][-3000:])
    tail = r['out'][r['out'].index('VERIF-BAD'):]
    tail = tail.split('Model checking completed')[0]
    for t in re.finditer(r'<<\s*"(\w+)",\s*"([^"]*)",\s*(\d+)\s*>>', tail):
        bad.append((t.group(1), t.group(2), int(t.group(3))))
    return bad, r


def run_tlc_with_extra(scratch, module, text, cfg, trace_path, tag, workers=1):
    extra_dir = os.path.join(scratch, 'gen-' + tag)
    os.makedirs(extra_dir, exist_ok=True)
    open(os.path.join(extra_dir, module + '.tla'), 'w').write(text)
    return vlib.run_tlc(module, cfg, scratch, workers=workers, env={'TRACE': trace_path}, tag=tag, timeout=1200,
                        extra_modules=[os.path.join(extra_dir, module + '.tla')])


def tlc_obs_confirm(scratch, ep, invs, tag):
    """pass 2: standard INVARIANTS check of one episode; returns the violated formula or None."""
    tp = os.path.join(scratch, 'confirm-%s.ndjson' % tag)
    obs.write_obs([ep], tp, vlib.NCPU)
    cfg = os.path.join(scratch, 'confirm-%s.cfg' % tag)
    open(cfg, 'w').write('SPECIFICATION Spec\nCHECK_DEADLOCK FALSE\nINVARIANTS\n' + '\n'.join(' ' + i for i in invs) + '\n')
    r = vlib.run_tlc('Obs', cfg, scratch, workers=1, env={'TRACE': tp}, tag='confirm-' + tag, timeout=300)
    return r.get('violated'), r


def crash_class(output):
    for pat, cls in [('negative WaitGroup counter', 'negative-waitgroup'), ('close of closed channel', 'double-close'),
                     ('send on closed channel', 'send-on-closed'), ('nil pointer dereference', 'nil-deref'),
                     ('all goroutines are asleep', 'deadlock'), ('panic:', 'panic'), ('fatal error:', 'fatal')]:
        if pat in output:
            return cls
    return 'died'


def replay_prog(prog, choices):
    p = json.loads(json.dumps(prog))
    if p['sched']['kind'] != 'free':
        p['sched'] = dict(p['sched'], choices=choices)
    return p


WINDOW_AFTER = {'PauseAndWait', 'Stop', 'WaitAndStop', 'Pause', 'WUF', 'Wait', 'Result', 'Close', 'Purge', 'BatchWait', 'BatchRead', 'TunePool',
                'QClose', 'Drain', 'Restart', 'Resume'}
RACE_FAMS = ['cycles', 'storm', 'stop2', 'tune', 'bind2', 'distbind', 'basic', 'ctl', 'cancel', 'batch', 'handle', 'pool', 'multi', 'dist', 'adapter', 'life', 'barrier']


def parse_races(output):
    """DATA RACE reports of the Go race detector that involve library code (not only the harness)"""
    out = []
    for blk in output.split('WARNING: DATA RACE')[1:]:
        blk = blk.split('==================')[0]
        frames = re.findall(r'\n\s+([\w./()*\[\]·,{}-]+)\(\)\n\s+(\S+?):(\d+)', blk)
        lib = [f for f in frames if 'goptics/varmq' in f[0] and 'zz_verif' not in f[1]]
        if not lib:
            continue
        tops = []
        for part in re.split(r'\n(?=(?:Previous )?(?:read|write|atomic) )', blk):
            fr = re.findall(r'\n\s+([\w./()*\[\]·,{}-]+)\(\)\n\s+(\S+?):(\d+)', '\n' + part)
            fr = [f for f in fr if 'zz_verif' not in f[1] and 'goptics/varmq' in f[0]]
            if fr:
                tops.append('%s %s:%s' % (fr[0][0].split('/')[-1], os.path.basename(fr[0][1]), fr[0][2]))
        out.append(' | '.join(tops[:2]) or lib[0][0])
    return out


def check_race(pid, tier, seed):
    """C19: concurrent client programs executed free-running under the race detector"""
    t0 = time.time()
    scratch = vlib.scratch_dir(pid)
    cov = {}
    violations = []
    try:
        binary = vlib.build_harness(scratch, race=True)
        rng = random.Random(seed * 7919 + 19)
        n = 220 if tier == 'quick' else 4000
        ps = []
        for p in progs.generate(RACE_FAMS, n, rng.randrange(1 << 30), prefix='C19r'):
            q = progs.free_variant(p, spin=rng.choice([0, 1, 3]))
            q['sched']['kind'] = 'race'
            ps.append(q)
        for p in load_corpus(pid):
            q = json.loads(json.dumps(p))
            q['sched'] = {'kind': 'race', 'seed': p['sched'].get('seed', 1)}
            q.setdefault('spin', 1)
            ps += [dict(q, id='%sr%d' % (q['id'], k)) for k in range(3)]
        nchunk = 8
        chunks = [ps[i:i + nchunk] for i in range(0, len(ps), nchunk)]
        suspects, reports, ran = [], [], 0

        def run_chunk(args):
            i, ch = args
            sd = os.path.join(scratch, 'c%d' % i)
            os.makedirs(sd, exist_ok=True)
            eps, cr = vlib.run_episodes(binary, ch, sd, gomaxprocs=0, workers=1, tag='r', race=True, timeout=300)
            outp = '\n'.join(set(e.get('child_output', '') for e in eps)) + '\n'.join(c['output'] for c in cr)
            return ch, len(eps), parse_races(outp), cr
        with ThreadPoolExecutor(vlib.NCPU) as ex:
            for ch, nrun, races, cr in ex.map(run_chunk, list(enumerate(chunks))):
                ran += nrun
                if races:
                    suspects.append(ch)
                    reports += races
        cov['evaluations'] = ran
        multi = [p for p in ps if len(p['clients']) >= 2]
        cov['distinct_nontrivial'] = len(set(json.dumps([p['cfg'], p['clients']], sort_keys=True) for p in multi))
        cov['rule'] = 'programs generated from the families %s (seeded), executed free-running on all cores under -race without any harness logging; non-trivial = at least two client goroutines besides the dispatcher and pool goroutines; distinct by configuration and client scripts' % RACE_FAMS
        cov['samples'] = [{'program': multi[0]}] if multi else [{'program': ps[0]}]
        cov['race_reports_first_pass'] = sorted(set(reports))[:10]
        # reproduce: run every program of a suspect chunk alone, a few times
        confirmed = {}
        for ch in suspects[:6]:
            for p in ch:
                for attempt in range(5):
                    sd = os.path.join(scratch, 'rr-%s-%d' % (p['id'], attempt))
                    os.makedirs(sd, exist_ok=True)
                    eps, cr = vlib.run_episodes(binary, [p], sd, gomaxprocs=0, workers=1, tag='x', race=True, timeout=120)
                    outp = '\n'.join(e.get('child_output', '') for e in eps) + '\n'.join(c['output'] for c in cr)
                    rs = parse_races(outp)
                    if rs:
                        confirmed.setdefault(p['id'], (p, rs))
                        break
                if len(confirmed) >= 3:
                    break
        # the verdict is stated as the invariant C19_NoRace of Obs.tla over the race events
        eps_obs = [{'prog': p, 'events': [], 'races': rs, 'header': {'ep': p['id']}, 'end': {'result': 'ok'}} for p, rs in confirmed.values()]
        if eps_obs:
            tp = os.path.join(scratch, 'obs.ndjson')
            obs.write_obs(eps_obs, tp, vlib.NCPU)
            bad, _ = tlc_obs_collect(scratch, tp, ['C19_NoRace'], 'race')
            for p, rs in confirmed.values():
                if any(b[1] == p['id'] for b in bad):
                    path = vlib.save_replay(pid, {'property': pid, 'formula': 'C19_NoRace', 'program': p, 'races': rs})
                    violations.append(path)
                    print('VIOLATION property=%s replay=%s' % (pid, path), flush=True)
                    log('  data race: %s' % rs[0])
        elif reports:
            # A report of the race detector is a fact about the execution it was made in (happens-before based): it needs no second
            # occurrence to be true.  When both conflicting accesses are in library code the report is the violation; the replay then
            # names the programs of the chunk it was made in.
            solid = sorted(set(r for r in reports if ' | ' in r))
            if solid:
                eps_obs = [{'prog': suspects[0][0], 'events': [], 'races': solid[:3], 'header': {'ep': suspects[0][0]['id']}, 'end': {'result': 'ok'}}]
                tp = os.path.join(scratch, 'obs.ndjson')
                obs.write_obs(eps_obs, tp, vlib.NCPU)
                bad, _ = tlc_obs_collect(scratch, tp, ['C19_NoRace'], 'race1')
                if bad:
                    path = vlib.save_replay(pid, {'property': pid, 'formula': 'C19_NoRace', 'programs': suspects[0], 'races': solid[:5],
                                                  'note': 'reported in a chunk of programs run in one process; did not recur when the programs ran alone'})
                    violations.append(path)
                    print('VIOLATION property=%s replay=%s' % (pid, path), flush=True)
                    log('  data race: %s' % solid[0])
            else:
                print('INCONCLUSIVE property=%s race reports %s did not reproduce when the programs ran alone' % (pid, sorted(set(reports))[:3]), flush=True)
        vlib.write_evidence(pid, tier, seed, 'exploration', cov, time.time() - t0, violations=len(violations),
                            assumptions=['the Go race detector reports only real races of the executions it sees (happens-before based)',
                                         'no harness logging or gating in these runs, so the harness adds no synchronisation'])
        return 1 if violations else 0
    finally:
        shutil.rmtree(scratch, ignore_errors=True)


def recovery_prog(ep):
    """the program of the second life: a fresh worker bound to the adapter's durable state at the crash point"""
    pending, unacked = [], {}
    for e in ep['events']:
        if e['ev'] == 'ad.enq' and e.get('ok'):
            pending.append({'eseq': e['eseq'], 'job': e.get('job', -1), 'prio': e.get('prio', 0), 'bad': e.get('bad', '')})
        elif e['ev'] == 'ad.deq' and e.get('ok'):
            ent = [x for x in pending if x['eseq'] == e['eseq']]
            pending = [x for x in pending if x['eseq'] != e['eseq']]
            if e.get('ack') and ent:
                unacked[e['ack']] = ent[0]
        elif e['ev'] == 'ad.ack' and e.get('ok'):
            unacked.pop(e.get('ack'), None)
        elif e['ev'] == 'ad.purge':
            pending = []
    held = list(unacked.values()) + pending
    if not held:
        return None
    p = ep['prog']
    cfg = json.loads(json.dumps(p['cfg']))
    cfg.pop('crash_at', None)
    cfg['preload'] = [({'raw': x['bad'], 'job': 0, 'prio': x['prio']} if x['bad'] or x['job'] <= 0 else {'job': x['job'], 'prio': x['prio']}) for x in held]
    # the recovered adapter is bound by a client call, i.e. under the gate: the new worker's first look at the adapter is interleaved
    # with the binding steps like everything else
    kind = (cfg.get('queues') or ['pfifo'])[0]
    cfg['queues'], cfg['nobind'] = [], True
    return {'id': p['id'] + 'r', 'family': 'recovery', 'cfg': cfg, 'clients': [{'name': 'ctl', 'ops': [{'op': 'Bind', 'kind': kind}]}], 'outcome': p.get('outcome', {}),
            'sched': {'kind': random.Random(p['sched'].get('seed', 1)).choice(['random', 'pct', 'rush', 'starve']), 'seed': p['sched'].get('seed', 1), 'favor': 'disp', 'depth': 2}}


def load_corpus(pid):
    import glob
    out = []
    for f in sorted(glob.glob(os.path.join(vlib.VERIF, 'corpus', '*.json'))):
        try:
            d = json.load(open(f))
        except Exception:
            continue
        if pid in d.get('properties', []):
            p = json.loads(json.dumps(d['program']))
            p['id'] = 'K' + os.path.basename(f)[:-5].replace('__', '-')
            p['family'] = p.get('family', 'corpus')
            out.append(p)
    return out


def check_property(pid, tier, seed):
    t0 = time.time()
    def mark(what):
        log('[%6.1fs] %s' % (time.time() - t0, what))
    plan = PLAN[pid]
    invmap = obs_invariants()
    invs = sorted(i for i, p in invmap.items() if p == pid)
    scratch = vlib.scratch_dir(pid)
    violations, notes = [], []
    cov = {'episodes': {}, 'samples': []}
    try:
        binary = vlib.build_harness(scratch)
        rng = random.Random(seed * 7919 + int(pid[1:]))
        # ---- data-structure level (QueueDS / TraceDS)
        if pid in DS_FORMULAS:
            dsfound, dsstats = run_ds(pid, tier, seed, scratch)
            cov['data_structures'] = dsstats
            for f, payload in dsfound:
                path = vlib.save_replay(pid, payload)
                violations.append((f, path))
                print('VIOLATION property=%s replay=%s' % (pid, path), flush=True)
                log('  formula %s failed on an operation log of the real data structure' % f)
        mark('data structures done')
        # ---- programs
        fams, nq, nt = plan['gated']
        n = nq if tier == 'quick' else nt
        gated = progs.generate(fams, n, rng.randrange(1 << 30), prefix=pid + 'g')
        # every 8th program chooses job IDs with white space around them (an ID is an opaque string: C01/C07/C12 identity)
        for i, p in enumerate(gated):
            if i % 8 == 5 and not p['cfg'].get('idgen'):
                p['cfg']['wsids'] = True
        # corpus: programs with recorded schedules that exposed a seeded change once (tools/mkcorpus.py)
        corpus = load_corpus(pid)
        gated += [p for p in corpus if p['sched']['kind'] != 'free']
        cov['corpus'] = len(corpus)
        if plan.get('life_exhaustive'):
            gated += progs.life_exhaustive(plan['life_exhaustive'][0 if tier == 'quick' else 1], rng.randrange(1 << 30), pid + 'x')
        # ---- model checking (all interleavings of the small configurations) and TLC-generated schedules (M1)
        mres = run_models(pid, tier, scratch) + run_dist_models(pid, tier, scratch)
        mark('models done')
        cov['model_configs'] = mres
        mq, mt, _ = MODEL_PLAN.get(pid, ([], [], []))
        m1progs, m1stats = m1.generate(mq + (mt if tier == 'thorough' else []), 24 if tier == 'quick' else 150, scratch, seed, pool=6 if tier == 'quick' else 8) if mq else ([], {})
        cov['m1'] = m1stats
        mark('m1 generated')
        gated = gated + m1progs
        ffams, fq, ft = plan['free']
        nf = fq if tier == 'quick' else ft
        free = [progs.free_variant(p) for p in progs.generate(ffams, nf, rng.randrange(1 << 30), prefix=pid + 'm')]
        if plan.get('flood'):
            # flood episodes (thousands of failing jobs, only the quiescence line logged), from a generator of their own
            free += progs.generate(['flood'], plan['flood'][0 if tier == 'quick' else 1], seed * 131 + 17, prefix=pid + 'fl')
        free += [p for p in corpus if p['sched']['kind'] == 'free']
        # ---- executions on the real code
        if plan.get('crash'):
            # every prefix of an execution is a crash point: cut executions after k gated steps ...
            ncut = plan['crash'][0 if tier == 'quick' else 1]
            base = [p for p in gated if p["family"] == "adapter"][:max(1, ncut // 4)]
            for bp in base:
                for k2 in range(8):
                    cp = json.loads(json.dumps(bp))
                    cp['id'] = '%sk%d' % (bp['id'], k2)
                    cp['family'] = 'crashcut'
                    cp["cfg"]["crash_at"] = rng.randrange(5, 90)
                    cp['sched'] = {'kind': 'random', 'seed': rng.randrange(1 << 30)}
                    gated.append(cp)
        eps, crashes = vlib.run_episodes(binary, gated, scratch, gomaxprocs=1, tag='g')
        # ---- systematic windows: for every label a base execution visited, one more execution of the same program in which
        # any goroutine arriving at that label is held there until nothing else can run
        skip = {'call', 'ret', 'c.start', 'quiescent', 'notify.sent', 'notify.dropped', 'sched'}
        holds, windows, untils = [], [], []
        for e in eps:
            if e['prog']['family'].startswith('m1:') or e['end']['result'] != 'ok':
                continue
            labels = sorted(set(x['ev'] for x in e['events'] if x['ev'] not in skip and not x['ev'].startswith('ad.')))
            whos = {}
            for x in e['events']:
                whos.setdefault(x['ev'], x.get('p', ''))
            for li, lab in enumerate(labels):
                hp = json.loads(json.dumps(e['prog']))
                hp['id'] = '%sh%d' % (e['prog']['id'], li)
                hp['sched'] = {'kind': 'hold', 'label': lab, 'nth': 0 if li % 4 else rng.choice([0, 1, 2]), 'seed': rng.randrange(1 << 30)}
                if rng.random() < 0.5:
                    hp['sched']['favor'] = rng.choice(['disp', 'disp', 'pg', 'c', 'x', 'ctl', 'w'])     # ... while one class of processes runs ahead
                if rng.random() < 0.4 and whos.get(lab, '')[:2] not in ('pg', 're', 'ct', ''):
                    hp['sched']['who'] = whos[lab]           # ... and the process that reached the label in the base run gets there first
                hp['_who'] = whos.get(lab, '')
                holds.append(hp)
            # "P pauses at L while Q advances to U, then P goes on": P = the process that was at L in the base run (it gets there first),
            # U = a label another process reached later in the base run; the classic two-goroutine window, placed where the base run shows it exists
            evs = [x for x in e['events'] if x['ev'] not in skip and not x['ev'].startswith('ad.') and x.get('p')]
            for k in range(6 if tier == 'quick' else 12):
                if len(evs) < 4:
                    break
                i = rng.randrange(len(evs) - 1)
                later = [x for x in evs[i + 1:i + 60] if x['p'] != evs[i]['p'] and x['ev'] != evs[i]['ev']]
                if not later or evs[i]['p'][:2] in ('pg', 're', 'ct'):
                    continue
                u = rng.choice(later)
                hp = json.loads(json.dumps(e['prog']))
                hp['id'] = '%su%d' % (e['prog']['id'], k)
                hp['sched'] = {'kind': 'hold', 'label': evs[i]['ev'], 'nth': 0, 'who': evs[i]['p'], 'favor': u['p'][:4] if u['p'][:2] in ('di', 'pg') else u['p'],
                               'until': u['ev'], 'seed': rng.randrange(1 << 30)}
                untils.append(hp)
            # "X has returned, then a goroutine that had passed its check acts": an internal goroutine is held at a label until
            # a barrier-like client call has returned, then runs alone for a few steps
            after = sorted(set(o['op'] for c in e['prog']['clients'] for o in c['ops']) & WINDOW_AFTER)
            ilabels = sorted(set(x['ev'] for x in e['events'] if x['ev'] not in skip and not x['ev'].startswith('ad.')
                                 and x.get('p', '')[:2] in ('di', 'pg', 're', 'ct')))
            if after:
                for li, lab in enumerate(ilabels):
                    hp = json.loads(json.dumps(e['prog']))
                    hp['id'] = '%sv%d' % (e['prog']['id'], li)
                    hp['sched'] = {'kind': 'window', 'label': lab, 'nth': rng.choice([0, 0, 1, 2, 3]), 'after': after if rng.random() < 0.7 else [rng.choice(after)],
                                   'burst': rng.choice([2, 5, 9, 14]), 'seed': rng.randrange(1 << 30)}
                    windows.append(hp)
        cap = 1400 if tier == 'quick' else 24000
        # windows at rarely visited labels are explored in every combination of "who gets there first" and "who runs ahead meanwhile"
        freq0 = {}
        for hp in holds:
            freq0[hp['sched']['label']] = freq0.get(hp['sched']['label'], 0) + 1
        extra = []
        for hp in holds:
            if freq0[hp['sched']['label']] <= max(6, cap // 60):
                for k, (fav, who) in enumerate([('disp', True), ('pg', True), ('c', True), ('disp', False), ('', True)]):
                    if who and hp['_who'][:2] in ('pg', 're', 'ct', ''):
                        continue
                    xp = json.loads(json.dumps(hp))
                    xp['id'] = '%sx%d' % (hp['id'], k)
                    xp['sched'] = {'kind': 'hold', 'label': hp['sched']['label'], 'nth': 0, 'seed': rng.randrange(1 << 30)}
                    if fav:
                        xp['sched']['favor'] = fav
                    if who:
                        xp['sched']['who'] = hp['_who']
                    extra.append(xp)
        # "the first k jobs are quick, the later ones slow": pool goroutines run ahead, but from the k-th worker-function entry on
        # they are held there (a held entry is a job in flight for as long as anything else can run)
        slow = []
        for hp in holds:
            if hp['sched']['label'] == 'wf.enter' and '_who' in hp:
                njobs = sum(1 for c in hp['clients'] for o in c['ops'] if o['op'] == 'Add') + sum(len(o.get('items') or []) for c in hp['clients'] for o in c['ops'] if o['op'] == 'AddAll')
                for k in range(2, min(njobs, 6) + 1):
                    xp = json.loads(json.dumps(hp))
                    xp['id'] = '%ss%d' % (hp['id'], k)
                    xp['sched'] = {'kind': 'hold', 'label': 'wf.enter', 'nth': k, 'favor': 'pg', 'seed': rng.randrange(1 << 30)}
                    slow.append(xp)
        rng.shuffle(slow)
        holds += extra + slow[:cap // 5]
        for hp in holds:
            hp.pop('_who', None)
        if len(holds) > cap:
            # windows at rarely visited labels first (tune.popped, reap.*, stopall.removed, ...), the common ones fill the rest
            freq = {}
            for hp in holds:
                freq[hp['sched']['label']] = freq.get(hp['sched']['label'], 0) + 1
            rng.shuffle(holds)
            holds.sort(key=lambda hp: freq[hp['sched']['label']])
            rare = [hp for hp in holds if freq[hp['sched']['label']] <= max(6, cap // 40)]
            rest = [hp for hp in holds if freq[hp['sched']['label']] > max(6, cap // 40)]
            rng.shuffle(rest)
            holds = (rare + rest)[:cap]
        rng.shuffle(windows)
        holds += windows[:cap // 2]
        rng.shuffle(untils)
        holds += untils[:cap // 3]
        # "the event loop has been notified, then the notifier's next store happens": the on-demand hook notify.done (it exists
        # only for schedules that name it) parks the notifier after notifyToPullNextJobs while the event loop runs as far as it can.
        # Drawn from a generator of its own so that all other variants are what they were before this hook existed.
        rng2 = random.Random(seed * 31 + 7)
        nd = []
        for e in eps:
            if e['prog']['family'].startswith('m1:') or e['end']['result'] != 'ok' or e['prog'].get('sched', {}).get('kind') == 'free':
                continue
            if not any(x['ev'] in ('notify.sent', 'notify.dropped') for x in e['events']):
                continue
            ops = set(o['op'] for c in e['prog']['clients'] for o in c['ops'])
            weight = 2 if ops & {'Restart', 'Resume', 'Bind', 'Stop', 'TunePool', 'Purge'} else 1
            for k in range(weight):
                hp = json.loads(json.dumps(e['prog']))
                hp['id'] = '%sn%d' % (e['prog']['id'], k)
                hp['sched'] = {'kind': 'hold', 'label': 'notify.done', 'nth': rng2.choice([0, 0, 1, 2, 3]), 'seed': rng2.randrange(1 << 30)}
                if rng2.random() < 0.5:
                    hp['sched']['favor'] = 'disp'
                nd.append((weight, hp))
        rng2.shuffle(nd)
        nd.sort(key=lambda t: -t[0])
        holds += [hp for _, hp in nd[:cap // 14]]
        heps, hcr = vlib.run_episodes(binary, holds, scratch, gomaxprocs=1, tag='h')
        cov['hold_variants'] = len(heps)
        eps += heps
        crashes += hcr
        if plan.get('crash'):
            # ... and bind a fresh worker to what the adapter still holds (pending + delivered-but-unacknowledged)
            rec = [recovery_prog(e) for e in eps if e['end']['result'] == 'cut']
            rec = [r for r in rec if r]
            reps, rcr = vlib.run_episodes(binary, rec, scratch, gomaxprocs=1, tag='rec')
            eps += reps
            crashes += rcr
            cov['crash_points'] = {'cut_executions': len([e for e in eps if e['end']['result'] == 'cut']), 'recoveries': len(reps)}
        m1eps = [e for e in eps if e['prog']['family'].startswith('m1:')]
        if m1eps and isinstance(cov.get('m1'), dict):
            cov['m1']['_replay'] = {'episodes': len(m1eps), 'choices': sum(len(e['prog']['sched'].get('choices') or []) for e in m1eps),
                                    'choices_not_followed': sum((e['end'] or {}).get('diverged', 0) or 0 for e in m1eps)}
        mark('gated episodes done')
        feps, fcrashes = vlib.run_episodes(binary, free, scratch, gomaxprocs=0, tag='f')
        mark('free episodes done')
        all_eps = eps + feps
        for c in crashes + fcrashes:
            all_eps.append({'prog': c['prog'], 'events': sorted(c.get('events') or [], key=lambda x: x.get('seq', 0)), 'crash': crash_class(c['output']), 'crash_output': c['output'], 'header': {'ep': c['prog']['id']}, 'end': {'result': 'crash'}})

        def run_codec(tag):
            # payload fidelity: generated values of many Go types through the four adapter-backed bind methods
            import subprocess
            cout = os.path.join(scratch, 'codec-%s.ndjson' % tag)
            ncodec = 40 if tier == 'quick' else 1500
            pr = subprocess.run([binary, '-test.run', '^TestVerifCodec$', '-test.timeout', '900s'], capture_output=True, text=True,
                                env=dict(os.environ, VERIF_CODEC_OUT=cout, VERIF_SEED=str(seed), VERIF_CODEC_N=str(ncodec)))
            cev = [json.loads(x) for x in open(cout)] if os.path.exists(cout) else []
            outp = pr.stdout + pr.stderr
            # a panic whose stack goes through the library's decode / dispatch path is an outcome (a crashed episode, judged by
            # C12_NoCrash and confirmed by running the harness again); anything else that kills the harness is no verdict
            libpanic = 'panic:' in outp and re.search(r'github\.com/goptics/varmq\.(parseToJob|\(\*worker|\(\*job|\(\*distributed|\(\*persistent)', outp)
            if pr.returncode != 0 and not cev and not libpanic:
                raise Inconclusive('codec harness failed:\n' + outp[-2000:])
            stub = {'id': 'C12codec', 'family': 'codec', 'cfg': {'wk': 'plain', 'conc': 2, 'queues': []}, 'clients': [], 'outcome': {}, 'sched': {'kind': 'free', 'seed': seed}}
            cep = {'prog': stub, 'events': cev, 'header': {'ep': 'C12codec'}, 'end': {'result': 'ok' if pr.returncode == 0 else 'crash'}}
            if pr.returncode != 0:
                cep['crash'] = crash_class(outp)
                cep['crash_output'] = outp[-3000:]
            return cep
        if pid == 'C12':
            cep = run_codec('a')
            all_eps.append(cep)
            cov['codec'] = {'comparisons': len(cep['events']), 'failed': [e for e in cep['events'] if not e.get('ok')][:5]}
        results = {}
        for e in all_eps:
            results[e['end']['result']] = results.get(e['end']['result'], 0) + 1
        cov['episodes'] = {'gated': len(eps), 'free': len(feps), 'crashed': len(crashes) + len(fcrashes), 'by_result': results}
        inconcl = [e for e in all_eps if e['end']['result'] in ('budget', 'stuck')]
        for e in all_eps:
            if e['end']['result'] == 'cut':
                e['events'] = [x for x in e['events'] if x['ev'] != 'quiescent']
        usable = [e for e in all_eps if e['end']['result'] not in ('budget', 'stuck')]
        if len(usable) < max(4, len(all_eps) // 2):
            raise Inconclusive('too few usable episodes: %r' % results)
        # ---- verdict pass 1
        # (in chunks: TLC reads a whole trace file into memory)
        CH = 6000
        chunks = [usable[i:i + CH] for i in range(0, len(usable), CH)] or [[]]

        def obs_chunk(kc):
            k, ch = kc
            tpk = os.path.join(scratch, 'obs-%d.ndjson' % k)
            idxk = obs.write_obs(ch, tpk, vlib.NCPU)
            badk, rk = tlc_obs_collect(scratch, tpk, invs, 'p1-%d' % k)
            return badk, rk.get('distinct', 0), (idxk[-1][1] if idxk else 0)
        bad, nlines, nstates = [], 0, 0
        with ThreadPoolExecutor(3) as ex:
            for badk, st, nl in ex.map(obs_chunk, list(enumerate(chunks))):
                bad += badk
                nstates += st
                nlines += nl
        mark('verdict pass 1 done (%d lines, %d TLC runs)' % (nlines, len(chunks)))
        cov['obs_lines'] = nlines
        cov['obs_states'] = nstates
        byep = {}
        for f, epid, line in bad:
            byep.setdefault(epid, set()).add(f)
        epmap = {e['prog']['id']: e for e in usable}
        # ---- verdict pass 2: reproduce on the real code, confirm with a plain INVARIANT check
        confirmed = 0
        for epid, fs in sorted(byep.items()):
            if confirmed >= 3:
                break
            e = epmap[epid]
            choices = (e.get('end') or {}).get('choices') or []
            rp = replay_prog(e['prog'], choices) if choices else json.loads(json.dumps(e['prog']))
            again = None
            for attempt in range(3 if rp['sched']['kind'] != 'free' else 6):      # (a replayed schedule can still go astray when the machine is loaded)
                if epid == 'C12codec':
                    cand = run_codec('r%d' % attempt)
                    v, r2 = tlc_obs_confirm(scratch, cand, invs, 'codec-%d' % attempt)
                    if v:
                        again = (v, cand)
                        rp = {'codec_failures': [e for e in cand['events'] if not e.get('ok')][:20], 'seed': seed}
                    break
                reps, rcr = vlib.run_episodes(binary, [rp], scratch, gomaxprocs=1 if rp['sched']['kind'] != 'free' else 0, workers=1, tag='r%d' % attempt)
                cand = reps[0] if reps else None
                if rcr:
                    cand = {'prog': rp, 'events': sorted(rcr[0].get('events') or [], key=lambda x: x.get('seq', 0)), 'crash': crash_class(rcr[0]['output']), 'header': {'ep': rp['id']}, 'end': {'result': 'crash'}}
                if cand is None:
                    continue
                v, r2 = tlc_obs_confirm(scratch, cand, invs, '%s-%d' % (epid, attempt))
                if v:
                    again = (v, cand)
                    break
            if again:
                confirmed += 1
                v, cand = again
                path = vlib.save_replay(pid, {'property': pid, 'formula': v, 'program': rp, 'first_failing_formulas': sorted(fs)})
                violations.append((v, path))
                print('VIOLATION property=%s replay=%s' % (pid, path), flush=True)
                log('  formula %s failed on episode %s (%s)' % (v, epid, e['prog']['family']))
            else:
                notes.append('unreproduced: %s on %s' % (sorted(fs), epid))
                print('INCONCLUSIVE property=%s formula(s) %s failed once on episode %s but not on re-execution' % (pid, sorted(fs), epid), flush=True)
        mark('verdict pass 2 done')
        # ---- conformance pass: recorded gated traces must be behaviours of VarMQ.tla (Trace.tla)
        # (episodes that park at the on-demand hook notify.done are not validated: the specification takes "notify; return" of a
        #  client call as one step, the parked notifier splits it)
        elig = [e for e in usable if e['prog']['sched']['kind'] != 'free' and e['end']['result'] == 'ok' and e['prog']['sched'].get('label') != 'notify.done'
                and (conform.eligible(e['prog']) or distconf.eligible(e['prog']))]
        rng2 = random.Random(seed)
        rng2.shuffle(elig)
        sample = sorted(elig[:60 if tier == 'quick' else 900], key=lambda e: len(e['events']))[:24 if tier == 'quick' else 600]
        # ... plus replays of TLC-generated behaviours and corpus programs (each family once more)
        seen_f = set(e['prog']['family'] for e in sample)
        for e in elig:
            f = e['prog']['family']
            if (f.startswith('m1:') or e['prog']['id'].startswith('K')) and f not in seen_f and e not in sample:
                seen_f.add(f)
                sample.append(e)

        def conf(e):
            try:
                if distconf.eligible(e['prog']):
                    return e, distconf.validate(e, scratch, e['prog']['id'], timeout=40)
                return e, conform.validate(e, scratch, e['prog']['id'], timeout=40)
            except Exception as ex:
                return e, {'accepted': None, 'error': str(ex)}
        acc = rej = unk = 0
        divs = []
        with ThreadPoolExecutor(8) as ex:
            for e, r in ex.map(conf, sample):
                if r.get('accepted'):
                    acc += 1
                elif r.get('accepted') is False and r.get('hw'):
                    rej += 1
                    divs.append({'episode': e['prog']['id'], 'family': e['prog']['family'], 'line': r.get('hw'), 'event': (r.get('stuck_line') or '')[:200]})
                else:
                    unk += 1
        cov['conformance'] = {'validated': acc + rej, 'accepted': acc, 'rejected': rej, 'undecided': unk, 'eligible': len(elig), 'divergences': divs[:10]}
        for d in divs[:5]:
            print('DIVERGENCE property=%s episode=%s line=%s event=%s (informational: the recorded trace is not a behaviour of the specification)' % (pid, d['episode'], d['line'], d['event'][:120]), flush=True)
        mark('conformance done')
        cov['traces_validated_against_impl'] = len(usable)
        cov['samples'] = [{'program': usable[0]['prog'], 'first_events': [dict((k, v) for k, v in ev.items() if k != 'st') for ev in usable[0]['events'][:12]]}] if usable else []
        cov['formulas'] = invs
        cov['notes'] = notes
        dsm = (cov.get('data_structures') or {}).get('models', [])
        cov['states'] = sum(m['states'] for m in mres + dsm) or max(1, cov['obs_states'])
        cov['transitions'] = sum(m['transitions'] for m in mres + dsm) or max(1, cov['obs_states'])
        cov['exhaustive'] = False
        # a configuration TLC could not finish within its time limit (a loaded machine) explored part of its state space without a failure:
        # that is reported in the evidence and on stdout, and it is neither a verdict nor a failure of the specification
        for m in mres + dsm:
            if not m['ok'] and m.get('timeout'):
                print('NOTE model-incomplete property=%s config=%s (TLC ran out of time after %s s; no failure in the part explored)' % (pid, m['config'], m.get('seconds')), flush=True)
        bad_models = [m for m in mres + dsm if not m['ok'] and not m.get('timeout')]
        for m in bad_models:
            print('INCONCLUSIVE model-violation property=%s config=%s formula=%s (the specification, not the code, failed: no verdict)' % (pid, m['config'], m['violated']), flush=True)
        wall = time.time() - t0
        vlib.write_evidence(pid, tier, seed, 'model_checking', cov, wall, violations=len(violations),
                            assumptions=['gate scheduler serialises goroutines at the hooks (GOMAXPROCS(1) children)', 'TLC evaluates the property formulas of spec/Obs.tla on every recorded trace'])
        if violations:
            return 1
        if bad_models:
            return 2
        return 0
    finally:
        shutil.rmtree(scratch, ignore_errors=True)


def main():
    ap = argparse.ArgumentParser()
    ap.add_argument('prop', nargs='?')
    ap.add_argument('--tier', default=os.environ.get('VERIF_TIER', 'quick'))
    ap.add_argument('--setup', action='store_true')
    ap.add_argument('--replay')
    a = ap.parse_args()
    seed = int(os.environ.get('VERIF_SEED', '1'))
    try:
        if a.setup:
            scratch = vlib.scratch_dir('setup')
            try:
                vlib.build_harness(scratch)
            finally:
                shutil.rmtree(scratch, ignore_errors=True)
            return 0
        if a.prop == 'C19':
            return check_race(a.prop, a.tier, seed)
        return check_property(a.prop, a.tier, seed)
    except Inconclusive as ex:
        print('INCONCLUSIVE %s' % str(ex)[:4000], flush=True)
        return 2
    except Exception:
        # a failure of the machinery itself is never a verdict
        import traceback
        print('INCONCLUSIVE internal error of the check:\n' + traceback.format_exc()[-3000:], flush=True)
        return 2


if __name__ == '__main__':
    sys.exit(main())
