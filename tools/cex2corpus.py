#!/usr/bin/env python3
"""cex2corpus.py <name> <property> <model config> <seeded id> <old text> <new text> [<old> <new> ...]
The model-based way to a regression schedule: the seeded change is transcribed into a copy of spec/VarMQ.tla (text replacement),
TLC searches the named configuration for a counterexample (safety invariants, or liveness with +live), the counterexample's
sequence of acting processes becomes a schedule, the schedule is replayed on the real code WITH the seeded change applied (scratch
worktree) and, when the property formula fails there, program + recorded schedule are kept as corpus/<name>.json."""
import sys, os, json, shutil, re, subprocess, tempfile
sys.path.insert(0, os.path.dirname(os.path.abspath(__file__)))
import vlib, models, m1, check, obs


def cex_steps(out):
    """(process, pc before, pc after) steps of a TLC counterexample (safety, or the prefix + cycle of a liveness one)"""
    steps, prev = [], None
    for blk in re.split(r'\nState \d+: ', out)[1:]:
        i = blk.find('pc |->')
        if i < 0:
            continue
        j = blk.find(']', i)
        pcs = dict(re.findall(r'(\w+) \|-> "([\w.]+)"', blk[i:j]))
        if prev is not None:
            for p, v in pcs.items():
                if prev.get(p) != v:
                    steps.append((p, prev.get(p), v))
        prev = pcs
    return steps


def main():
    name, pid, config, sid = sys.argv[1:5]
    pairs = sys.argv[5:]
    live = config.endswith('+live')
    config = config.replace('+live', '')
    sc = vlib.scratch_dir('cex')
    wt = os.path.join(sc, 'repo')
    try:
        # 1. the mutated specification
        sd = os.path.join(sc, 'spec')
        shutil.copytree(vlib.SPEC, sd)
        txt = open(os.path.join(sd, 'VarMQ.tla')).read()
        for a, b in zip(pairs[0::2], pairs[1::2]):
            assert txt.count(a) >= 1, 'text not found in VarMQ.tla: ' + a
            txt = txt.replace(a, b)
        open(os.path.join(sd, 'VarMQ.tla'), 'w').write(txt)
        # only invariants with a consequence a client can observe: the counterexample must run on until the property itself fails
        mod, d = models.write_model(config, sc, live, gatelike=True, invs=models.OBSERVABLE)
        r = vlib.run_tlc(mod, os.path.join(d, mod + '.cfg'), sc, workers=vlib.NCPU, tag='cex', timeout=1500, heap='8g', spec_dir=sd,
                         extra_modules=[os.path.join(d, mod + '.tla')])
        if not r.get('violated'):
            print('TLC found no counterexample in configuration', config, {k: v for k, v in r.items() if k not in ('out', 'wd')})
            return 2
        steps = cex_steps(r['out'])
        clients = set(models.CONFIGS[config][0])
        prog = m1.harness_prog(config, name, m1.to_choices(steps, clients), 1)
        prog['family'] = 'cex:' + config
        print('counterexample of %s: %s, %d steps' % (config, r['violated'], len(steps)))
        # 2. replay on the real code with the seeded change
        a = subprocess.run(['git', '-C', '/repo', 'worktree', 'add', '-q', '--detach', wt, 'HEAD'], capture_output=True, text=True)
        assert a.returncode == 0, a.stderr
        a = subprocess.run(['git', '-C', wt, 'apply', os.path.join(vlib.VERIF, 'seeded', sid, 'patch.diff')], capture_output=True, text=True)
        assert a.returncode == 0, a.stderr
        vlib.REPO = wt
        b = vlib.build_harness(sc)
        invs = sorted(i for i, p in check.obs_invariants().items() if p == pid)
        eps, cr = vlib.run_episodes(b, [prog], sc, gomaxprocs=1, workers=1)
        cand = eps[0] if eps else None
        if cr:
            cand = {'prog': prog, 'events': sorted(cr[0].get('events') or [], key=lambda x: x.get('seq', 0)), 'crash': check.crash_class(cr[0]['output']), 'header': {'ep': prog['id']}, 'end': {'result': 'crash'}}
        v, _ = check.tlc_obs_confirm(sc, cand, invs, 'cex')
        print('replayed on the code with %s: result %s, diverged choices %s, formula violated: %s' % (sid, cand['end'].get('result'), cand['end'].get('diverged'), v))
        if not v:
            if os.environ.get('CEX_KEEP'):
                json.dump(prog, open(os.environ['CEX_KEEP'], 'w'))
                open(os.environ['CEX_KEEP'] + '.tlc', 'w').write(r['out'])
            return 1
        rp = check.replay_prog(prog, (cand.get('end') or {}).get('choices') or prog['sched']['choices'])
        json.dump({'properties': [pid], 'origin': '%s via TLC counterexample of configuration %s (%s)' % (sid, config, r['violated']), 'formula': v, 'program': rp},
                  open(os.path.join(vlib.VERIF, 'corpus', name + '.json'), 'w'), indent=1)
        print('kept corpus/%s.json' % name)
        return 0
    finally:
        subprocess.run(['git', '-C', '/repo', 'worktree', 'remove', '--force', wt], capture_output=True)
        shutil.rmtree(sc, ignore_errors=True)


if __name__ == '__main__':
    sys.exit(main())
