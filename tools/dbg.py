#!/usr/bin/env python3
"""dbg.py <replay.json|program.json> [--all]: re-run a program on /repo and print its events compactly"""
import sys, json, os, shutil
sys.path.insert(0, os.path.dirname(os.path.abspath(__file__)))
import vlib
d = json.load(open(sys.argv[1]))
prog = d.get('program', d)
sc = vlib.scratch_dir('dbg')
try:
    b = vlib.build_harness(sc)
    free = prog['sched']['kind'] == 'free'
    eps, cr = vlib.run_episodes(b, [prog], sc, gomaxprocs=0 if free else 1, workers=1)
    print('formula', d.get('formula'), 'cfg', json.dumps(prog['cfg']))
    for c in prog['clients']:
        print('  ', c['name'], ' '.join('%s%s' % (o['op'], '(%s)' % ','.join(str(o[k]) for k in ('job', 'n', 'b') if o.get(k)) if any(o.get(k) for k in ('job','n','b')) else '') for o in c['ops']))
    print('   outcome', prog.get('outcome'), 'sched', {k: v for k, v in prog['sched'].items() if k != 'choices'})
    for c in cr:
        print('CRASH', c['output'][-1500:])
    obs_only = '--all' not in sys.argv
    for e in eps:
        for ev in e['events']:
            if obs_only and ev['ev'] not in ('call', 'ret', 'wf.enter', 'wf.exit', 'quiescent', 'disp.deq') and not ev['ev'].startswith('ad.'):
                continue
            x = {k: v for k, v in ev.items() if k not in ('st', 'seq', 'p', 'ev', 'items', 'kind') and v not in (0, '', None, False) or k in ('ok',)}
            if ev['ev'] == 'quiescent':
                x = {k: ev[k] for k in ('blocked', 'ws', 'pending', 'qpending', 'processing', 'idle', 'conc', 'sub', 'comp', 'succ', 'fail', 'census', 'jst', 'peak')}
            print('%4d %-6s %-10s %s' % (ev['seq'], ev['p'], ev['ev'], json.dumps(x)[:(2000 if ev["ev"] == "quiescent" else 230)]))
        print('end', {k: v for k, v in e['end'].items() if k != 'choices'})
finally:
    shutil.rmtree(sc, ignore_errors=True)
