# conf1.py <program.json>: runs one gated program and validates its trace against spec/Trace.tla, printing the state of the longest matched prefix
import sys, json, os, shutil
sys.path.insert(0, '/verif/tools')
import vlib, conform
prog = json.load(open(sys.argv[1])); prog = prog.get('program', prog)
sc = vlib.scratch_dir('conf1')
try:
    b = vlib.build_harness(sc)
    eps, cr = vlib.run_episodes(b, [prog], sc, gomaxprocs=1, workers=1)
    e = eps[0]
    r = conform.validate(e, sc, 'x', timeout=120, diagnose=True)
    print('accepted', r.get('accepted'), 'hw', r.get('hw'), 'lines', r.get('lines'))
    if not r.get('accepted'):
        print('stuck:', (r.get('stuck_line') or '')[:400])
        print(r.get('diag', '')[-3000:])
        hw = r.get('hw') or 0
        evs = [x for x in e['events'] if x['ev'] not in ('sched',) and not x['ev'].startswith('ad.')]
        for x in evs[max(0, hw - 14):hw + 2]:
            st = x.get('st') or {}
            print(x['seq'], x['p'], x['ev'], {k: v for k, v in x.items() if k in ('job', 'ok', 'node', 'n', 'op', 'res')}, 'ws', st.get('ws'), 'cur', st.get('cur'), 'sig', st.get('sig'), 'q', st.get('q'), 'idle', st.get('idle'))
finally:
    shutil.rmtree(sc, ignore_errors=True)
