#!/usr/bin/env python3
"""Conformance of dist / distbind episodes with spec/Dist.tla (through spec/TraceDist.tla)."""
import json, os, re
import vlib, models


def eligible(prog):
    c = prog['cfg']
    if prog.get('family') not in ('dist', 'distbind') or prog.get('faults') or c.get('crash_at'):
        return False
    return prog['sched']['kind'] != 'free'


def write_case(ep, d):
    prog, cfg = ep['prog'], ep['prog']['cfg']
    os.makedirs(d, exist_ok=True)
    late = bool(cfg.get('nobind'))
    ncons = 1 if late else (cfg.get('consumers') or 1)
    binders = set(cl['name'] for cl in prog['clients'] if any(o['op'] == 'Bind' for o in cl['ops']))
    lines, scripts, prio, bad, pre = [], {}, {}, set(), []
    started = set()
    for e in ep['events']:
        ev, p = e['ev'], e.get('p', '')
        if ev == 'ad.enq':
            if not e.get('ok'):
                continue
            x = e['eseq'] + 1
            prio[x] = e.get('prio', 0)
            if e.get('bad') or e.get('job', 0) <= 0:
                bad.add(x)
            if p in ('', '?'):
                pre.append(x)          # put there before anything was bound: the adapter's initial content
                continue
            scripts.setdefault(p, []).append(x)
            lines.append({'k': 'enq', 'p': p, 'x': x, 'n': e.get('nsubs', 0), 'c': 0})
        elif ev == 'sub.notify':
            lines.append({'k': 'notify', 'p': p, 'x': 0, 'n': 0, 'c': 0})
        elif ev == 'ad.deq' and e.get('ok'):
            lines.append({'k': 'deq', 'p': p, 'x': e['eseq'] + 1, 'n': 0, 'c': 0})
        elif ev == 'wf.enter':
            lines.append({'k': 'enter', 'p': p, 'x': 0, 'n': 0, 'c': e.get('cons', 0) + 1, 'job': e['job']})
        elif ev == 'wf.exit':
            lines.append({'k': 'exit', 'p': p, 'x': 0, 'n': 0, 'c': 0, 'job': e['job']})
        elif ev == 'ad.ack' and e.get('ok'):
            lines.append({'k': 'ack', 'p': p, 'x': e['eseq'] + 1, 'n': 0, 'c': 0})
        elif ev == 'mgr.register' and p in binders:
            lines.append({'k': 'reg', 'p': p, 'x': 0, 'n': 0, 'c': 0})
        elif ev == 'ad.sub' and p in binders:
            lines.append({'k': 'sub', 'p': p, 'x': 0, 'n': 0, 'c': 0})
        elif ev == 'start.enter' and p in binders:
            lines.append({'k': 'start', 'p': p, 'x': 0, 'n': 0, 'c': 0})
            started.add(p)
        elif ev in ('notify.sent', 'notify.dropped') and p in started:
            lines.append({'k': 'bnotify', 'p': p, 'x': 0, 'n': 0, 'c': 0})
            started.discard(p)
        elif ev == 'quiescent':
            lines.append({'k': 'quiescent', 'p': '', 'x': 0, 'n': 0, 'c': 0})
    # worker-function events name the job key; the adapter entry of a key is the one delivered for it
    key2x = {}
    for e in ep['events']:
        if e['ev'] == 'ad.deq' and e.get('ok') and e.get('job', 0) > 0:
            key2x.setdefault(e['job'], []).append(e['eseq'] + 1)
    used = {}
    for ln in lines:
        if ln['k'] in ('enter', 'exit'):
            xs = key2x.get(ln.pop('job'), [])
            i = used.get((ln['k'], tuple(xs)), 0)
            ln['x'] = xs[min(i, len(xs) - 1)] if xs else 0
            used[(ln['k'], tuple(xs))] = i + 1
    items = sorted(prio)
    if not items:
        return None, 0
    prods = sorted(scripts)
    txt = '''---- MODULE TraceDistRun ----
EXTENDS TraceDist
ConcG == [c \\in Consumers |-> %d]
ScriptG == %s
PrioG == %s
PreG == %s
====
''' % (cfg.get('conc', 1), (' @@ '.join('("%s" :> %s)' % (p, models.tla_val(scripts[p])) for p in prods) or '[p \\in {} |-> <<>>]'),
       ' @@ '.join('(%d :> %d)' % (x, prio[x]) for x in items), models.tla_val(sorted(pre, key=lambda x: prio[x])))
    c = '''SPECIFICATION TSpec
CONSTANTS
 Consumers = {%s}
 Conc <- ConcG
 Producers = {%s}
 Script <- ScriptG
 Preload <- PreG
 Late = {%s}
 SubFirst = TRUE
 StopOnError = FALSE
 PrioOf <- PrioG
 Bad = {%s}
CHECK_DEADLOCK FALSE
CONSTRAINT HighWater
POSTCONDITION Accepted
INVARIANTS C13_ExactlyOne C11_AckAfter C12_NoBadRun
''' % (', '.join(str(i + 1) for i in range(ncons)), ', '.join('"%s"' % p for p in prods), '1' if late else '', ', '.join(map(str, sorted(bad))))
    open(os.path.join(d, 'TraceDistRun.tla'), 'w').write(txt)
    open(os.path.join(d, 'TraceDistRun.cfg'), 'w').write(c)
    tp = os.path.join(d, 'trace.ndjson')
    with open(tp, 'w') as f:
        for ln in lines:
            f.write(json.dumps(ln) + '\n')
    return tp, len(lines)


def validate(ep, scratch, tag, timeout=90):
    d = os.path.join(scratch, 'dconf-' + tag)
    tp, n = write_case(ep, d)
    if tp is None:
        return {'accepted': True, 'lines': 0, 'trivial': True}
    r = vlib.run_tlc('TraceDistRun', os.path.join(d, 'TraceDistRun.cfg'), scratch, workers=1, env={'TRACE': tp}, tag='dconf-' + tag, timeout=timeout,
                     depth_first=True, heap='2g', extra_modules=[os.path.join(d, 'TraceDistRun.tla')])
    out = r['out']
    res = {'accepted': 'Model checking completed. No error has been found' in out, 'lines': n, 'states': r.get('distinct', 0), 'wall': r['wall']}
    if not res['accepted']:
        m = re.search(r'"VERIF-HW",\s*(\d+),\s*(\d+)', out)
        res['detail'] = out[-1500:]
        if r.get('violated'):
            res['violated'] = r['violated']
        if m:
            res['hw'] = int(m.group(1))
            ls = open(tp).read().split('\n')
            res['stuck_line'] = ls[res['hw'] - 1] if res['hw'] - 1 < len(ls) else ''
    return res
