#!/usr/bin/env python3
"""Model-checking configurations of spec/VarMQ.tla (client programs as TLA+ constants) and their TLC runs."""
import os, re, json
import vlib


def tla_val(v):
    if isinstance(v, bool):
        return 'TRUE' if v else 'FALSE'
    if isinstance(v, int):
        return str(v)
    if isinstance(v, str):
        return '"%s"' % v
    if isinstance(v, dict):
        return '[' + ', '.join('%s |-> %s' % (k, tla_val(x)) for k, x in v.items()) + ']'
    if isinstance(v, (list, tuple)):
        return '<<' + ', '.join(tla_val(x) for x in v) + '>>'
    raise ValueError(v)


def op(name, **kw):
    d = {'op': name, 'job': 0, 'n': 0}
    d.update(kw)
    return d


AA, BW, BR, RES, B = 'AddAll', 'BatchWait', 'BatchRead', 'Result', 'Bind'
MULTI = {'MC': 'MC_multi', 'Spec': 'SpecM', 'FairSpec': 'FairSpecM', 'Inv': ['C15_Fair', 'C17_Sum'], 'Props': ['C15_Choice', 'C14_BindKeepsState']}
A, C, W, P, PW, R, S, RS, T, WS, PU, QC, WU, CC = 'Add', 'Close', 'Wait', 'Pause', 'PauseAndWait', 'Resume', 'Stop', 'Restart', 'TunePool', 'WaitAndStop', 'Purge', 'QClose', 'WUF', 'CancelCtx'

# name -> (clients{name: [ops]}, constants overrides, tier)
CONFIGS = {
    'barrier': ({'c1': [op(A, job=1), op(A, job=2), op(WU)], 'w1': [op(WU)]}, {}, 'quick'),
    'pause': ({'c1': [op(A, job=1), op(A, job=2)], 'ctl': [op(PW), op(R), op(WU)]}, {}, 'quick'),
    'pause2': ({'c1': [op(A, job=1), op(WU)], 'ctl': [op(P), op(R)], 'x': [op(PW), op(R)]}, {}, 'thorough'),
    'cancel': ({'c1': [op(A, job=1), op(A, job=2), op(WU)], 'x': [op(C, job=1), op(C, job=1)], 'w1': [op(W, job=1)]}, {}, 'quick'),
    'cancel2': ({'c1': [op(A, job=1), op(A, job=2), op(WU)], 'x': [op(C, job=2)], 'y': [op(C, job=2)], 'w1': [op(W, job=2)]}, {'Conc0': 2}, 'thorough'),
    'stop': ({'c1': [op(A, job=1), op(A, job=2)], 'ctl': [op(S), op(RS), op(WU)]}, {}, 'quick'),
    'stop2': ({'c1': [op(A, job=1)], 'ctl': [op(S)], 'x': [op(S), op(RS), op(WU)]}, {}, 'thorough'),
    'restart': ({'c1': [op(A, job=1), op(A, job=2)], 'ctl': [op(RS), op(WU)]}, {}, 'quick'),
    'was': ({'c1': [op(A, job=1), op(A, job=2)], 'ctl': [op(WS), op(RS), op(WU)]}, {}, 'thorough'),
    'purge': ({'c1': [op(A, job=1), op(A, job=2), op(WU)], 'x': [op(PU)], 'w1': [op(W, job=2)]}, {}, 'quick'),
    'qclose': ({'c1': [op(A, job=1), op(A, job=2), op(WU)], 'x': [op(QC)]}, {}, 'thorough'),
    'tune': ({'c1': [op(A, job=1), op(A, job=2), op(A, job=3)], 'ctl': [op(T, n=2), op(T, n=1), op(WU)]}, {'Jobs': [1, 2, 3], 'Nodes': [1, 2, 3], 'PGSeq': ['pg1', 'pg2', 'pg3']}, 'thorough'),
    'conc2': ({'c1': [op(A, job=1), op(A, job=2), op(WU)], 'w1': [op(W, job=1)]}, {'Conc0': 2}, 'quick'),
    'prio': ({'c1': [op(A, job=1), op(A, job=2), op(A, job=3), op(WU)]}, {'Jobs': [1, 2, 3], 'QKind': 'prio', 'Prio': {1: 1, 2: 0, 3: 1}}, 'thorough'),
    'expiry': ({'c1': [op(A, job=1), op(A, job=2), op(WU)]}, {'Conc0': 2, 'Expiry': True}, 'quick'),
    'expiry2': ({'c1': [op(A, job=1), op(A, job=2)], 'ctl': [op(S), op(RS), op(WU)]}, {'Conc0': 2, 'Expiry': True}, 'heavy'),
    'ctx': ({'c1': [op(A, job=1)], 'ctl': [op(RS)], 'x': [op(CC)]}, {'WithCtx': True, 'Jobs': [1]}, 'thorough'),
    'ctx0': ({'ctl': [op(RS)], 'x': [op(CC)]}, {'WithCtx': True, 'Jobs': [1]}, 'quick'),
    'ctxpause': ({'c1': [op(A, job=1)], 'ctl': [op(P), op(R), op(WU)], 'x': [op(CC)]}, {'WithCtx': True, 'Jobs': [1]}, 'quick'),
    'ctxpause2': ({'c1': [op(A, job=1)], 'ctl': [op(PW), op(R), op(P), op(WU)], 'x': [op(CC)]}, {'WithCtx': True, 'Jobs': [1]}, 'thorough'),
    'tuneratio': ({'c1': [op(A, job=1), op(WU)], 'ctl': [op(T, n=2), op(T, n=1), op(T, n=3)]}, {'Jobs': [1], 'Nodes': [1, 2, 3], 'PGSeq': ['pg1', 'pg2', 'pg3'], 'Conc0': 3, 'Ratio': 100, 'TrackTune': True}, 'quick'),
    'tunedown': ({'c1': [op(A, job=1), op(A, job=2), op(A, job=3)], 'ctl': [op(T, n=1), op('Nop')]}, {'Jobs': [1, 2, 3], 'Nodes': [1, 2], 'PGSeq': ['pg1', 'pg2'], 'Conc0': 2, 'TrackTune': True}, 'thorough'),
    'batch': ({'c1': [op(AA, n=1), op(BR, n=1)], 'w1': [op(BW, n=1)]}, {'Conc0': 2, 'WK': 'result', 'BatchOf': {1: 1, 2: 1}}, 'quick'),
    'batch0': ({'c1': [op(AA, n=1), op(BR, n=1), op(A, job=1), op(RES, job=1)]}, {'WK': 'err', 'BatchOf': {1: 0}, 'Jobs': [1], 'Outcome': {1: 'err'}}, 'quick'),
    'batchpurge': ({'c1': [op(AA, n=1), op(BW, n=1)], 'x': [op(PU)], 'y': [op(QC)]}, {'Conc0': 1, 'WK': 'err', 'BatchOf': {1: 1, 2: 1}, 'Outcome': {1: 'err', 2: 'ok'}}, 'thorough'),
    'result': ({'c1': [op(A, job=1), op(A, job=2), op(RES, job=1)], 'w1': [op(RES, job=1), op(RES, job=2)], 'x': [op(C, job=2)]}, {'WK': 'result', 'Outcome': {1: 'err', 2: 'ok'}}, 'quick'),
    'adapter': ({'c1': [op(A, job=1), op(A, job=2), op(WU)]}, {'QKind': 'pfifo', 'Conc0': 1}, 'quick'),
    'adapterfault': ({'c1': [op(A, job=1), op(A, job=2), op(WU)]}, {'QKind': 'pprio', 'Conc0': 2, 'Faults': [('enq', 1), ('deq', 0), ('ack', 1)]}, 'quick'),
    'crash': ({'c1': [op(A, job=1), op(A, job=2)]}, {'QKind': 'pfifo', 'Conc0': 1, 'MaxCrash': 1}, 'quick'),
    'crash2': ({'c1': [op(A, job=1), op(A, job=2)], 'ctl': [op(PW), op(R)]}, {'QKind': 'pfifo', 'Conc0': 2, 'MaxCrash': 1}, 'thorough'),
    # several queues, strategies, binding as a client call
    'multirr': ({'c1': [op(P), op(A, job=1), op(A, job=2), op(A, job=3), op(A, job=4), op(R), op(WU)]},
                dict(MULTI, Jobs=[1, 2, 3, 4], QKinds=['fifo', 'fifo'], QOf={1: 1, 2: 2, 3: 1, 4: 2}), 'quick'),
    'multirr2': ({'c1': [op(A, job=1), op(A, job=2), op(WU)], 'c2': [op(A, job=3), op(A, job=4)]},
                 dict(MULTI, Jobs=[1, 2, 3, 4], QKinds=['fifo', 'prio', 'fifo'], QOf={1: 1, 2: 2, 3: 3, 4: 2}, Prio={1: 0, 2: 1, 3: 0, 4: 0}), 'thorough'),
    'multimax': ({'c1': [op(A, job=1), op(A, job=2), op(A, job=3), op(WU)], 'x': [op(PU, n=2)]},
                 dict(MULTI, Jobs=[1, 2, 3], QKinds=['fifo', 'fifo'], QOf={1: 1, 2: 2, 3: 2}, Strategy='max'), 'quick'),
    'multimin': ({'c1': [op(P), op(A, job=1), op(A, job=2), op(A, job=3), op(R), op(WU)], 'c2': [op(A, job=4)]},
                 dict(MULTI, Jobs=[1, 2, 3, 4], QKinds=['prio', 'fifo'], QOf={1: 1, 2: 2, 3: 2, 4: 1}, Strategy='min', Prio={1: 1, 2: 0, 3: 0, 4: 0}), 'thorough'),
    'bind': ({'ctl': [op(B), op(A, job=1), op(P), op(B), op(A, job=2), op(R), op(WU)], 'c1': [op(A, job=3)]},
             dict(MULTI, Jobs=[1, 2, 3], QKinds=['fifo', 'fifo'], QOf={1: 1, 2: 2, 3: 1}, NoBind=True), 'quick'),
    'bindstop': ({'ctl': [op(S), op(B), op(A, job=1), op(S), op(B), op(A, job=2), op(RS), op(WU)]},
                 dict(MULTI, Jobs=[1, 2], QKinds=['fifo', 'prio'], QOf={1: 1, 2: 2}, NoBind=True), 'thorough'),
    'bindctx': ({'ctl': [op(B), op(A, job=1), op(B), op(WU)], 'x': [op(CC)]},
                dict(MULTI, Jobs=[1], QKinds=['fifo', 'fifo'], QOf={1: 1}, NoBind=True, WithCtx=True), 'thorough'),
    'expiry3': ({'c1': [op(A, job=1), op(A, job=2), op(WU), op(A, job=3), op(WU)]}, {'Jobs': [1, 2, 3], 'Conc0': 2, 'Expiry': True}, 'heavy'),
    'pausestop': ({'c1': [op(A, job=1), op(A, job=2)], 'ctl': [op(P), op(S), op('Nop'), op(RS), op(WU)]}, {}, 'thorough'),
    'rsresume': ({'c1': [op(A, job=1), op(A, job=2)], 'ctl': [op(P), op(RS), op(WU)], 'x': [op(R)]}, {}, 'thorough'),
    'pausenop': ({'c1': [op(A, job=1), op(A, job=2)], 'ctl': [op(PW), op('Nop'), op(R), op(WU)]}, {}, 'thorough'),
    'rsres': ({'c1': [op(A, job=1)], 'ctl': [op(RS), op(WU)], 'y': [op(R)]}, {'Jobs': [1]}, 'thorough'),
    'stopwuf': ({'c1': [op(A, job=1), op(A, job=2)], 'ctl': [op(S)], 'x': [op(WU), op(WU)]}, {}, 'thorough'),
    'ratio': ({'c1': [op(A, job=1), op(A, job=2), op(A, job=3), op(WU)]}, {'Jobs': [1, 2, 3], 'Nodes': [1, 2, 3], 'PGSeq': ['pg1', 'pg2', 'pg3'], 'Conc0': 3, 'Ratio': 100}, 'thorough'),
}

DEFAULTS = {'Jobs': [1, 2], 'QKind': 'fifo', 'Nodes': [1, 2], 'DispSeq': ['disp1', 'disp2'], 'PGSeq': ['pg1', 'pg2'],
            'Conc0': 1, 'Ratio': 0, 'Expiry': False, 'WithCtx': False, 'MaxGen': 1, 'WK': 'plain', 'Faults': [], 'MaxCrash': 0,
            'QKinds': None, 'QOf': None, 'Strategy': 'rr', 'NoBind': False, 'TrackTune': False}

SAFETY = ['TypeOK', 'NoViolation', 'C01_AtMostOnce', 'C01_NoRejected', 'C02_Bound', 'C02_TuneBound', 'C09_PauseBound', 'C17_Bounds', 'C18_PoolBound', 'C18_IdleAtRest',
          'NodeOwnership', 'OneLoop', 'C08_CloseOnce', 'C08_Closes', 'C07_Metrics', 'C11_AckAfter', 'C11_AckIssued', 'C11_NoLoss', 'C11_Recovery', 'C03_NoStall', 'C06_Returns', 'C05_Returns']


OBSERVABLE = ['NoViolation', 'C01_AtMostOnce', 'C01_NoRejected', 'C02_Bound', 'C02_TuneBound', 'C09_PauseBound', 'C18_PoolBound', 'C18_IdleAtRest', 'C08_CloseOnce', 'C08_Closes',
              'C11_AckAfter', 'C11_AckIssued', 'C11_NoLoss', 'C11_Recovery', 'C03_NoStall', 'C06_Returns', 'C05_Returns']      # (what a client can see)


def write_model(name, scratch, live=False, extra_invs=(), gatelike=False, invs=None):
    clients, over, _ = CONFIGS[name]
    k = dict(DEFAULTS)
    k.update(over)
    jobs = k['Jobs']
    prio = k.get('Prio') or {j: 0 for j in jobs}
    outc = k.get('Outcome') or {}
    bof = k.get('BatchOf') or {}
    qkinds = k.get('QKinds') or [k['QKind']]
    qof = k.get('QOf') or {}
    mod = 'MCg_' + name
    progs = ' @@ '.join('("%s" :> %s)' % (c, tla_val(ops)) for c, ops in clients.items())
    txt = '''---- MODULE %s ----
EXTENDS %s
ProgG == %s
PrioG == %s
DispG == %s
PGG == %s
OutG == %s
BatchG == %s
FaultsG == {%s}
QKindsG == %s
QOfG == %s
====
''' % (mod, k.get('MC', 'MC_core'), progs, ' @@ '.join('(%d :> %d)' % (j, prio[j]) for j in jobs), tla_val(k['DispSeq']), tla_val(k['PGSeq']),
       ' @@ '.join('(%d :> "%s")' % (j, outc.get(j, 'ok')) for j in jobs), ' @@ '.join('(%d :> %d)' % (j, bof.get(j, 0)) for j in jobs), ', '.join('<<"%s", %d>>' % (a, b) for a, b in k['Faults']),
       tla_val(qkinds), ' @@ '.join('(%d :> %d)' % (j, qof.get(j, 1)) for j in jobs))
    cfg = '''SPECIFICATION %s
CONSTANTS
 Clients = {%s}
 Prog <- ProgG
 Jobs = {%s}
 Prio <- PrioG
 QKinds <- QKindsG
 QOf <- QOfG
 Strategy = "%s"
 NoBind = %s
 Nodes = {%s}
 DispSeq <- DispG
 PGSeq <- PGG
 Conc0 = %d
 Ratio = %d
 Expiry = %s
 WithCtx = %s
 MaxGen = %d
 WK = "%s"
 Outcome <- OutG
 BatchOf <- BatchG
 Faults <- FaultsG
 MaxCrash = %d
 TrackTune = %s
CHECK_DEADLOCK FALSE
''' % (k.get('FairSpec', 'FairSpec') if live else k.get('Spec', 'Spec'), ', '.join('"%s"' % c for c in clients), ', '.join(map(str, jobs)), k['Strategy'], tla_val(bool(k['NoBind'])),
       ', '.join(map(str, k['Nodes'])), k['Conc0'], k['Ratio'], tla_val(k['Expiry']), tla_val(k['WithCtx']), k['MaxGen'], k['WK'], k['MaxCrash'], tla_val(bool(k['TrackTune'])))
    if live:
        cfg += 'PROPERTY C03_Live\n'
    else:
        cfg += 'INVARIANTS ' + ' '.join((invs if invs is not None else SAFETY) + list(k.get('Inv', [])) + list(extra_invs)) + '\nPROPERTY C16_Forward ' + ' '.join(k.get('Props', [])) + '\n'
    if gatelike:
        cfg += 'ACTION_CONSTRAINT GateLike\n'
    d = os.path.join(scratch, 'mc-' + name + ('-live' if live else ''))
    os.makedirs(d, exist_ok=True)
    open(os.path.join(d, mod + '.tla'), 'w').write(txt)
    open(os.path.join(d, mod + '.cfg'), 'w').write(cfg)
    return mod, d


def run_model(name, scratch, live=False, workers=None, timeout=900, extra=None, extra_invs=()):
    mod, d = write_model(name, scratch, live, extra_invs)
    return vlib.run_tlc(mod, os.path.join(d, mod + '.cfg'), scratch, workers=workers, tag='mc-' + name + ('-live' if live else ''),
                        timeout=timeout, extra=extra, heap='8g', extra_modules=[os.path.join(d, mod + '.tla')])


if __name__ == '__main__':
    import sys, tempfile
    sc = vlib.scratch_dir('models')
    names = sys.argv[1:] or list(CONFIGS)
    for n in names:
        live = n.endswith('+live')
        n = n.replace('+live', '')
        r = run_model(n, sc, live=live)
        print(n, 'live' if live else '', {k: v for k, v in r.items() if k not in ('out', 'wd')})
        if not r.get('ok'):
            import tlcsum
            print(tlcsum.summarize(r['out']) or r['out'][-3000:])
    import shutil
    shutil.rmtree(sc, ignore_errors=True)
