#!/usr/bin/env python3
"""seedtest.py [ids...]: applies each seeded/<id>/patch.diff to a scratch worktree of /repo (never to /repo itself), runs the
quick checks of the properties it breaks (or, for equivalent changes, a set of checks that must stay quiet) against that
worktree (VERIF_REPO), and records the outcome in seeded/RESULTS.json (SEED_RESULTS overrides the path).  Evidence and replays
of these runs go to a scratch directory, not to /verif/evidence."""
import json, os, subprocess, sys, time, tempfile, shutil
V = os.path.dirname(os.path.dirname(os.path.abspath(__file__)))
QUIET = ['C01', 'C03', 'C06', 'C17']
def run(cmd, **kw):
    return subprocess.run(cmd, capture_output=True, text=True, **kw)
def main():
    ids = sys.argv[1:] or sorted(d for d in os.listdir(os.path.join(V, 'seeded')) if os.path.isdir(os.path.join(V, 'seeded', d)))
    tier = os.environ.get('SEED_TIER', 'quick')
    res_path = os.environ.get('SEED_RESULTS') or os.path.join(V, 'seeded', 'RESULTS.json')
    results = json.load(open(res_path)) if os.path.exists(res_path) else {}
    seeds = [x for x in (os.environ.get('SEED_SEEDS') or os.environ.get('VERIF_SEED') or '1').split(',') if x]
    keep = os.environ.get('SEED_KEEP')
    base = tempfile.mkdtemp(prefix='verif-seed-', dir=os.environ.get('VERIF_SCRATCH', '/var/tmp'))
    wt = os.path.join(base, 'repo')
    a = run(['git', '-C', '/repo', 'worktree', 'add', '--detach', wt, 'HEAD'])
    assert a.returncode == 0, a.stderr
    env = dict(os.environ, VERIF_REPO=wt, VERIF_EVIDENCE_DIR=os.path.join(base, 'evidence'), VERIF_REPLAY_DIR=os.path.join(base, 'replays'))
    try:
        for sid in ids:
            d = os.path.join(V, 'seeded', sid)
            meta = json.load(open(os.path.join(d, 'meta.json')))
            props = [p for p in (os.environ.get('SEED_PROPS') or '').split(',') if p] or meta['breaks'] or QUIET
            a = run(['git', '-C', wt, 'apply', os.path.join(d, 'patch.diff')])
            if a.returncode != 0:
                print(sid, 'patch does not apply:', a.stderr[:200]); continue
            out = {}
            try:
                for p in props:
                    t0 = time.time()
                    # SEED_SEEDS: further seeds are tried while the change goes undetected (for changes that are expected to be detected)
                    for sd in seeds if meta['breaks'] else seeds[:1]:
                        r = run(['python3', os.path.join(V, 'tools', 'check.py'), p, '--tier', tier], cwd=V, env=dict(env, VERIF_SEED=sd))
                        if r.returncode == 1:
                            break
                    if keep and r.returncode == 1:
                        os.makedirs(keep, exist_ok=True)
                        for l in r.stdout.split('\n'):
                            if l.startswith('VIOLATION') and 'replay=' in l:
                                src = l.split('replay=')[1].strip()
                                if os.path.exists(src):
                                    shutil.copy(src, os.path.join(keep, '%s__%s__%s' % (sid, p, os.path.basename(src))))
                    lines = [l for l in r.stdout.split('\n') if l.startswith(('VIOLATION', 'INCONCLUSIVE', 'DIVERGENCE', 'KNOWN'))]
                    forms = sorted(set(l.split('formula ')[1].split(' ')[0] for l in r.stderr.split('\n') if 'formula ' in l))
                    out[p] = {'exit': r.returncode, 'violations': sum(1 for l in lines if l.startswith('VIOLATION')), 'formulas': forms,
                              'divergences': sum(1 for l in lines if l.startswith('DIVERGENCE')), 'seconds': round(time.time() - t0), 'seed': sd,
                              'inconclusive': [l[:160] for l in lines if l.startswith('INCONCLUSIVE')][:3]}
                    print(sid, p, out[p], flush=True)
            finally:
                run(['git', '-C', wt, 'checkout', '--', '.'])
                run(['git', '-C', wt, 'clean', '-fdq'])
            expect = 1 if meta['breaks'] else 0
            results[sid] = {'breaks': meta['breaks'], 'tier': tier, 'checks': out,
                            'as_expected': all(o['exit'] == expect for o in out.values()) if not meta['breaks'] else any(o['exit'] == 1 for o in out.values())}
            json.dump(results, open(res_path, 'w'), indent=1, sort_keys=True)
    finally:
        run(['git', '-C', '/repo', 'worktree', 'remove', '--force', wt])
        shutil.rmtree(base, ignore_errors=True)
if __name__ == '__main__':
    main()
