#!/usr/bin/env python3
"""seedtest.py [ids...]: applies each seeded/<id>/patch.diff to /repo, runs the quick checks of the properties it breaks
(or, for equivalent changes, a set of checks that must stay quiet), undoes it, and records the outcome in seeded/RESULTS.json."""
import json, os, subprocess, sys, time
V = os.path.dirname(os.path.dirname(os.path.abspath(__file__)))
QUIET = ['C01', 'C03', 'C06', 'C17']
def run(cmd, **kw):
    return subprocess.run(cmd, capture_output=True, text=True, **kw)
def main():
    ids = sys.argv[1:] or sorted(d for d in os.listdir(os.path.join(V, 'seeded')) if os.path.isdir(os.path.join(V, 'seeded', d)))
    tier = os.environ.get('SEED_TIER', 'quick')
    res_path = os.path.join(V, 'seeded', 'RESULTS.json')
    results = json.load(open(res_path)) if os.path.exists(res_path) else {}
    assert run(['git', '-C', '/repo', 'status', '--porcelain']).stdout.strip() == '', '/repo is not clean'
    for sid in ids:
        d = os.path.join(V, 'seeded', sid)
        meta = json.load(open(os.path.join(d, 'meta.json')))
        props = meta['breaks'] or QUIET
        a = run(['git', '-C', '/repo', 'apply', os.path.join(d, 'patch.diff')])
        if a.returncode != 0:
            print(sid, 'patch does not apply:', a.stderr[:200]); continue
        out = {}
        try:
            for p in props:
                t0 = time.time()
                r = run(['python3', os.path.join(V, 'tools', 'check.py'), p, '--tier', tier], cwd=V)
                lines = [l for l in r.stdout.split('\n') if l.startswith(('VIOLATION', 'INCONCLUSIVE', 'DIVERGENCE', 'KNOWN'))]
                forms = sorted(set(l.split('formula ')[1].split(' ')[0] for l in r.stderr.split('\n') if 'formula ' in l))
                out[p] = {'exit': r.returncode, 'violations': sum(1 for l in lines if l.startswith('VIOLATION')), 'formulas': forms,
                          'divergences': sum(1 for l in lines if l.startswith('DIVERGENCE')), 'seconds': round(time.time() - t0)}
                print(sid, p, out[p], flush=True)
        finally:
            run(['git', '-C', '/repo', 'checkout', '--', '.'])
            run(['rm', '-rf', os.path.join(V, 'replays')])
        expect = 1 if meta['breaks'] else 0
        results[sid] = {'breaks': meta['breaks'], 'tier': tier, 'checks': out,
                        'as_expected': all(o['exit'] == expect for o in out.values()) if not meta['breaks'] else any(o['exit'] == 1 for o in out.values())}
        json.dump(results, open(res_path, 'w'), indent=1, sort_keys=True)
    assert run(['git', '-C', '/repo', 'status', '--porcelain']).stdout.strip() == '', '/repo left dirty'
if __name__ == '__main__':
    main()
