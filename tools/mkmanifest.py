#!/usr/bin/env python3
"""Writes /verif/MANIFEST.json (kept as a script so that the claims stay in one readable place)."""
import json, os, subprocess
V = os.path.dirname(os.path.dirname(os.path.abspath(__file__)))
props = [json.loads(l) for l in open(os.path.join(V, 'properties.jsonl'))]
CORE = ('TLC explores every interleaving of small configurations of the explicit TLA+ specification spec/VarMQ.tla (one action per '
        'vhook()-to-vhook() step of every goroutine) and checks the property there; the specification is bound to the code by (1) replaying '
        'TLC-generated behaviours and seeded hold/PCT/random schedules through the real goroutines under a gate scheduler, (2) validating the '
        'recorded traces line by line against the specification (spec/Trace.tla reuses its actions; logged arguments and state projection must match) and '
        '(3) evaluating the property formulas of spec/Obs.tla with TLC in every state of every recorded trace, gated and free-running. '
        'A violation is reported only after the failing schedule was re-executed on the real code and the formula failed again. ')
NOTE = ('bounded: 2-3 jobs and 1-3 clients in the exhaustive models, <= 12 jobs per recorded execution; exhaustive at the granularity of the '
        'vhook() points (finer interleavings only through the free-running executions); conformance is sampled; trusts TLC, the gate scheduler '
        '(GOMAXPROCS(1) children; the log line of a hook and the action it marks are not one atomic step, so under heavy load a recorded order can differ from the real one by one position: such a trace is reported as an informational DIVERGENCE, never as a violation), the Go runtime goroutine-state strings used for quiescence detection, and the hand-written reconstruction of the history in Obs.tla')
SPEC = {
 'C01': 'Formulas C01_* (at most once, never after rejection/cancel, identity, all executed at rest).',
 'C02': 'Formulas C02_* over worker-function entries/exits against the largest limit possibly in effect.',
 'C03': 'Progress as the finite-trace conditions C03_* at quiescence (nothing accepted left over, nobody asleep) plus the temporal property C03_Live under weak fairness on the model; the conformance pass adds "implementation at rest => no spec action enabled".',
 'C04': 'Additionally spec/QueueDS.tla: the chunked FIFO transcribed and model-checked against a plain sequence (refinement), the priority order as min (priority, insertion); operation logs of the real queues (small and real segment capacities, crossing 1024/2560/4864) validated with spec/TraceDS.tla; worker level: C04_DequeueOrder / C04_SerialOrder.',
 'C05': 'Formulas C05_* (handles never return early; nobody sleeps on finished work at rest).',
 'C06': 'Formulas C06_* (WaitUntilFinished exact w.r.t. the jobs accepted before the call; PauseAndWait/Stop/WaitAndStop return with nothing in flight; no barrier caller asleep at rest).',
 'C07': "Formulas C07_* over Result()/Err() values derived from the job key, repeated calls, failure counts, crash events of the child processes; on the model the wrapper's outcome plumbing (per-job Response, metrics) is part of VarMQ.tla (configurations result, batch0, batch).",
 'C08': 'Formulas C08_* over everything read from a batch stream, its close, NumPending samples and crash events (double close). On the model the batch mechanics (WgCounter compare-and-swap, shared stream, close by the one call that reaches zero, rejected items, empty batch) are part of VarMQ.tla: C08_CloseOnce / C08_Closes on configurations batch, batch0, batchpurge, liveness on batch.',
 'C09': 'Formulas C09_* (no worker-function entry in a closed epoch; at most conc entries after a plain Pause).',
 'C10': 'Formulas C10_* (Close wins or reports ErrJobProcessing/ErrJobAlreadyClosed, nothing silently dropped by Purge, closed queue rejects, no crash).',
 'C11': "A recording adapter logs every Enqueue/DequeueWithAckId/Acknowledge; C11_* are state invariants of the adapter log, hence evaluated at every prefix = crash point; executions are additionally cut at random steps and a fresh worker is bound to the adapter's durable state (C11_Recovery). On the model the acknowledging adapter (delivery ids, faults, a Crash action enabled in every state) is part of VarMQ.tla (configurations adapter, adapterfault, crash, crash2: C11_AckAfter, C11_AckIssued, C11_NoLoss, C11_Recovery), and spec/Dist.tla states the acknowledgement discipline across several consumers.",
 'C12': 'Isolation of undecodable/foreign/closed entries by C12_* on adapter traces (and C12_NoBadRun on spec/Dist.tla, where bad entries are delivered, reported and skipped); payload and id fidelity by generated values of ten Go types through the four adapter bind methods, each comparison logged and judged by C12_Codec. TLA+ cannot enumerate encoding/json values: that part is generated-input exploration with the trace formula as oracle.',
 'C13': 'spec/Dist.tla models the protocol between several workers on one shared adapter (pending list, subscriber list and notifications, per consumer the coalescing wake-up signal, the dispatcher pass with a dequeue another consumer may win, acknowledge, binding as Register/Subscribe/start): TLC checks exactly-one execution, no loss, everything processed at rest, one Submitted per notification, and liveness; two sensitivity configurations (the bind order before fix c889587, a pass that ends on a failed dispatch) must be reported as violated. Recorded executions of 2-3 real workers on one recording adapter are validated against it (spec/TraceDist.tla) and judged by C13_* of Obs.tla.',
 'C14': 'spec/Lifecycle.tla is the reference machine; every sequence of lifecycle calls up to length 3 (quick) / 4 (thorough) plus random longer ones is executed and each result/status compared by C14_*; VarMQ.tla model configurations cover Stop/Restart/context-listener interleavings and Bind as a client call of an unbound worker (configurations bind, bindstop, bindctx: C14_BindKeepsState).',
 'C15': 'Several queues per worker are part of VarMQ.tla (queue manager cursor, the three strategies, Bind): MC_multi.tla checks C15_Fair (equal round-robin share while all queues stay non-empty) and C15_Choice (every dispatch takes the head of a queue the strategy allows) over all interleavings of producers, purges and the dispatcher; spec/QueueDS.tla part (c) + MC_manager.tla check the selection functions alone; every length vector over 0..3 for 1..4 queues and every cursor replayed against the real Manager and validated with TraceDS.tla; gated multi-queue executions are validated against VarMQ.tla and judged by C15_* of Obs.tla.',
 'C16': 'Formulas C16_* over status samples (monotone ranks per real-time order, Processing inside the worker function, Closed after Wait), action property C16_Forward on the model.',
 'C17': 'Formulas C17_* (bounds of every sample, exactness at quiescence, worker pending = sum over queues), plus the FIFO Len() log checks of TraceDS.tla.',
 'C18': 'Formulas C18_* over goroutine censuses at quiescence (pool bound, idle >= 1, trimming with expiry, nothing left after Stop), model invariants C18_* and NodeOwnership.',
}
checks = []
claimed = sorted(SPEC) + ['C19']
for p in sorted(SPEC):
    checks.append({'property_id': p, 'quick_cmd': 'python3 tools/check.py %s --tier quick' % p, 'thorough_cmd': 'python3 tools/check.py %s --tier thorough' % p,
                   'evidence_file': 'evidence/%s.json' % p, 'replay_cmd_template': 'python3 tools/dbg.py {path}', 'engine': 'tla-trace',
                   'level_claimed': {'category': 'model_checking', 'text': CORE + SPEC[p], 'design_ref': 'DESIGN.md sections 4-6 and 12'},
                   'level_note': NOTE,
                   'technique': 'explicit TLA+ specification checked with TLC (VarMQ.tla / MC_multi.tla / Dist.tla / QueueDS.tla); TLC trace validation of real executions (Trace.tla / TraceDist.tla / TraceDS.tla); TLC-evaluated property formulas over recorded traces (Obs.tla)'})
checks.append({'property_id': 'C19', 'quick_cmd': 'python3 tools/check.py C19 --tier quick', 'thorough_cmd': 'python3 tools/check.py C19 --tier thorough',
               'evidence_file': 'evidence/C19.json', 'replay_cmd_template': 'python3 tools/dbg.py {path}', 'engine': 'tla-trace',
               'level_claimed': {'category': 'exploration', 'text': 'Concurrent client programs (the same seeded program families that the TLA+ checks use, i.e. the multi-goroutine clients the test suite lacks) are executed free-running on all cores under the Go race detector, with all harness logging and gating switched off so that the harness adds no synchronisation; a report that names library code is re-run alone and, when it reproduces, stated as a violation of C19_NoRace. A data race is a fact about memory accesses that a TLA+ specification does not observe: the verdict is the race detector\'s, the specification side contributes the programs.', 'design_ref': 'DESIGN.md section 6 (C19)'},
               'level_note': 'dynamic: only races of the executions actually run are seen; the detector is happens-before based, so a report is a real race of that execution',
               'technique': 'Go race detector over generated concurrent client programs (TLA+ not applicable to memory-level races; see level text)'})
hooks = subprocess.run(['git', '-C', '/repo', 'log', '--format=%h', '--grep', '^verif:'], capture_output=True, text=True).stdout.split()
m = {'version': 1, 'setup_cmd': 'python3 tools/check.py --setup',
     'hooks': {'guard': 'verif', 'enable': 'go test -c -tags verif -overlay <json generated by tools/vlib.py: /repo/**/zz_verif_*_test.go -> /verif/harness/*.go>; rebuilt from /repo\'s working tree by every check',
               'baseline_off_cmd': 'cd /repo && GOFLAGS=-mod=mod GOPROXY=off go test -json -vet=off -count=1 -timeout 25m ./...',
               'source_commits': list(reversed(hooks)), 'add_only': True},
     'engines': [{'name': 'tla-trace', 'path': 'tools/check.py', 'serves_properties': claimed,
                  'kind_free_text': 'TLC (model checking of spec/VarMQ.tla, MC_multi.tla, Dist.tla, QueueDS.tla, MC_manager.tla; trace validation with Trace.tla / TraceDist.tla / TraceDS.tla; property evaluation with Obs.tla) + Go gate-scheduler harness overlaid into /repo'}],
     'checks': checks, 'notes': 'DESIGN.md explains the approach; known_findings.json lists the defects found and fixed; seeded/ holds the changes used to test the checks',
     'not_applicable': [{'property_id': p['id'], 'reason': 'not claimed'} for p in props if p['id'] not in claimed]}
json.dump(m, open(os.path.join(V, 'MANIFEST.json'), 'w'), indent=1)
print('checks', len(checks), 'hooks', m['hooks']['source_commits'])
