#!/usr/bin/env python3
"""findcorpus.py <seeded id> <property> <program.json> [n]: runs a directed program under n seeds of its schedule on the real code with
the seeded change applied (scratch worktree); the first execution on which a formula of the property fails is kept, with its
recorded schedule, as corpus/<seeded id>__<property>__d.json."""
import sys, os, json, shutil, subprocess
sys.path.insert(0, os.path.dirname(os.path.abspath(__file__)))
import vlib, check, obs


def main():
    sid, pid, pf = sys.argv[1:4]
    n = int(sys.argv[4]) if len(sys.argv) > 4 else 40
    base = json.load(open(pf))
    sc = vlib.scratch_dir('fc')
    wt = os.path.join(sc, 'repo')
    try:
        a = subprocess.run(['git', '-C', '/repo', 'worktree', 'add', '-q', '--detach', wt, 'HEAD'], capture_output=True, text=True)
        assert a.returncode == 0, a.stderr
        a = subprocess.run(['git', '-C', wt, 'apply', os.path.join(vlib.VERIF, 'seeded', sid, 'patch.diff')], capture_output=True, text=True)
        assert a.returncode == 0, a.stderr
        vlib.REPO = wt
        b = vlib.build_harness(sc)
        progs = []
        for i in range(n):
            p = json.loads(json.dumps(base))
            p['id'] = 'd%d' % i
            p['sched'] = dict(p['sched'], seed=1000 + i)
            progs.append(p)
        free = base['sched']['kind'] == 'free'
        eps, cr = vlib.run_episodes(b, progs, sc, gomaxprocs=0 if free else 1, tag='d')
        invs = sorted(i for i, p in check.obs_invariants().items() if p == pid)
        tp = os.path.join(sc, 'obs.ndjson')
        cand = eps + [{'prog': c['prog'], 'events': sorted(c.get('events') or [], key=lambda x: x.get('seq', 0)), 'crash': check.crash_class(c['output']), 'header': {'ep': c['prog']['id']}, 'end': {'result': 'crash'}} for c in cr]
        obs.write_obs(cand, tp, vlib.NCPU)
        bad, _ = check.tlc_obs_collect(sc, tp, invs, 'p1')
        print('executions', len(cand), 'failing', sorted(set((b[1], b[0]) for b in bad))[:8])
        if not bad:
            return 1
        epid = bad[0][1]
        e = [x for x in cand if x['prog']['id'] == epid][0]
        rp = check.replay_prog(e['prog'], (e.get('end') or {}).get('choices') or [])
        rp['id'] = '%s__%s__d' % (sid, pid)
        json.dump({'properties': [pid], 'origin': '%s (directed program, schedule seed %d)' % (sid, rp['sched']['seed']), 'formula': bad[0][0], 'program': rp},
                  open(os.path.join(vlib.VERIF, 'corpus', '%s__%s__d.json' % (sid, pid)), 'w'), indent=1)
        print('kept corpus/%s__%s__d.json (%s)' % (sid, pid, bad[0][0]))
        return 0
    finally:
        subprocess.run(['git', '-C', '/repo', 'worktree', 'remove', '--force', wt], capture_output=True)
        shutil.rmtree(sc, ignore_errors=True)


if __name__ == '__main__':
    sys.exit(main())
