#!/bin/bash
# trymut.sh <seeded id> <prop> [tier]: run one check against a scratch worktree with the seeded patch applied
id=$1; prop=$2; tier=${3:-quick}
wt=/var/tmp/wt_$id_$$
git -C /repo worktree add -q --detach $wt HEAD && git -C $wt apply /verif/seeded/$id/patch.diff || exit 3
VERIF_REPO=$wt VERIF_EVIDENCE_DIR=/var/tmp/ev_$$ VERIF_REPLAY_DIR=/var/tmp/rp_$$ python3 /verif/tools/check.py $prop --tier $tier 2>&1 | grep -v WARNING | grep -v "^\[\|^built" | cut -c1-260 | tail -${TAILN:-14}
echo "exit=${PIPESTATUS[0]}"
git -C /repo worktree remove --force $wt; rm -rf /var/tmp/ev_$$ /var/tmp/rp_$$
