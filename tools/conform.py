#!/usr/bin/env python3
"""Conformance pass: validate one gated episode against spec/Trace.tla (which reuses VarMQ's actions)."""
import json, os, shutil, re
import vlib, models

SUPPORTED = {'Bind', 'Add', 'Close', 'Wait', 'WUF', 'Pause', 'PauseAndWait', 'Resume', 'Stop', 'WaitAndStop', 'Restart', 'TunePool',
             'Purge', 'QClose', 'CancelCtx', 'AddAll', 'BatchWait', 'BatchRead', 'Result'}
READONLY = {'Introspect', 'Info', 'Status', 'NumPending', 'NumProcessing', 'NumIdle', 'NumConc', 'Metrics', 'WStatus', 'QPending', 'Yield', 'BatchPending'}


def eligible(prog):
    c = prog['cfg']
    qs = c.get('queues') or []
    if (c.get('consumers') or 1) > 1 or c.get('preload') or c.get('crash_at') or c.get('idgen'):
        return False
    if c.get('nobind'):
        # queues are bound by Bind ops; one binder only (the harness numbers queues by the order in which the Bind calls return)
        binders = [cl for cl in prog['clients'] if any(o['op'] == 'Bind' for o in cl['ops'])]
        if qs or len(binders) != 1 or any(o.get('kind') not in ('fifo', 'prio') for cl in binders for o in cl['ops'] if o['op'] == 'Bind'):
            return False
        if any(o['op'] in ('Add', 'AddAll', 'Purge', 'QClose') for cl in prog['clients'] if cl not in binders for o in cl['ops']):
            return False
    elif len(qs) == 1:
        # (the gate-instrumented kinds wfifo / wprio interleave other goroutines inside what the specification takes as one step:
        # their traces are judged by the property formulas only)
        if qs[0] not in ('fifo', 'prio', 'pfifo', 'pprio'):
            return False
    elif not qs or any(k not in ('fifo', 'prio') for k in qs):
        return False
    for cl in prog['clients']:
        for o in cl['ops']:
            if o['op'] not in SUPPORTED and o['op'] not in READONLY:
                return False
            if o['op'] == 'TunePool' and o.get('n', 0) < 1:
                return False
    return True


def spec_op(o):
    if o['op'] in READONLY:
        return {'op': 'Nop', 'job': 0, 'n': 0}
    if o['op'] in ('Purge', 'QClose'):
        return {'op': o['op'], 'job': 0, 'n': o.get('q', 0) + 1}
    if o['op'] in ('AddAll', 'BatchWait', 'BatchRead'):
        return {'op': o['op'], 'job': 0, 'n': o.get('b', 0)}
    return {'op': o['op'], 'job': o.get('job', 0), 'n': o.get('n', 0)}


def write_case(ep, d):
    prog = ep['prog']
    cfg = prog['cfg']
    os.makedirs(d, exist_ok=True)
    jobs, prio, bof, qof = [], {}, {}, {}
    qkinds = list(cfg.get('queues') or [])
    for cl in prog['clients']:
        for o in cl['ops']:
            if o['op'] == 'Bind':
                qkinds.append(o['kind'])
            if o['op'] == 'Add':
                jobs.append(o['job'])
                prio[o['job']] = o.get('prio', 0)
                qof[o['job']] = o.get('q', 0) + 1
            if o['op'] == 'AddAll':
                for it in o.get('items') or []:
                    jobs.append(it['job'])
                    prio[it['job']] = it.get('prio', 0)
                    bof[it['job']] = o['b']
                    qof[it['job']] = o.get('q', 0) + 1
    nq = max(1, len(qkinds))
    qkinds = [{'wfifo': 'fifo', 'wprio': 'prio'}.get(k, k) for k in qkinds] or ['fifo']
    for j in list(qof):
        qof[j] = min(qof[j], nq + 1) if cfg.get('nobind') else min(qof[j], nq)
    if cfg.get('nobind') and any(v > nq for v in qof.values()):
        qkinds = qkinds + ['fifo'] * (max(qof.values()) - nq)      # submissions to queues that are never bound ("noqueue")
        nq = len(qkinds)
    jobs = sorted(set(jobs)) or [1]
    for j in jobs:
        prio.setdefault(j, 0)
    nrestart = sum(1 for cl in prog['clients'] for o in cl['ops'] if o['op'] in ('Restart',))
    maxconc = max([cfg.get('conc', 1)] + [o.get('n', 0) for cl in prog['clients'] for o in cl['ops'] if o['op'] == 'TunePool'])
    nn = maxconc + 2 + nrestart
    progs = ' @@ '.join('("%s" :> %s)' % (cl['name'], models.tla_val([spec_op(o) for o in cl['ops']])) for cl in prog['clients'])
    txt = '''---- MODULE TraceRun ----
EXTENDS Trace
ProgG == %s
PrioG == %s
DispG == %s
PGG == %s
OutG == %s
BatchG == %s
FaultsG == {%s}
QKindsG == %s
QOfG == %s
====
''' % (progs, ' @@ '.join('(%d :> %d)' % (j, prio[j]) for j in jobs),
       models.tla_val(['disp%d' % (i + 1) for i in range(nrestart + 2)]), models.tla_val(['pg%d' % (i + 1) for i in range(9)]),
       ' @@ '.join('(%d :> "%s")' % (j, (prog.get('outcome') or {}).get(str(j), 'ok')) for j in jobs),
       ' @@ '.join('(%d :> %d)' % (j, bof.get(j, 0)) for j in jobs),
       ', '.join('<<"%s", %d>>' % (a, b) for a, bs in (prog.get('faults') or {}).items() for b in bs),
       models.tla_val(qkinds), ' @@ '.join('(%d :> %d)' % (j, qof.get(j, 1)) for j in jobs))
    c = '''SPECIFICATION TSpec
CONSTANTS
 Clients = {%s}
 Prog <- ProgG
 Jobs = {%s}
 Prio <- PrioG
 QKinds <- QKindsG
 QOf <- QOfG
 Strategy = "%s"
 NoBind = %s
 Nodes = {%s}
 DispSeq <- DispG
 PGSeq <- PGG
 Conc0 = %d
 Ratio = %d
 Expiry = %s
 WithCtx = %s
 MaxGen = %d
 WK = "%s"
 Outcome <- OutG
 BatchOf <- BatchG
 Faults <- FaultsG
 MaxCrash = 0
 TrackTune = FALSE
CHECK_DEADLOCK FALSE
CONSTRAINT HighWater
POSTCONDITION Accepted
''' % (', '.join('"%s"' % cl['name'] for cl in prog['clients']), ', '.join(map(str, jobs)), cfg.get('strategy') or 'rr', 'TRUE' if cfg.get('nobind') else 'FALSE',
       ', '.join(str(i + 1) for i in range(nn)), cfg.get('conc', 1), cfg.get('ratio', 0), 'TRUE' if cfg.get('expiry_us', 0) > 0 else 'FALSE',
       'TRUE' if cfg.get('ctx') else 'FALSE', nrestart + 1, cfg.get('wk', 'plain'))
    open(os.path.join(d, 'TraceRun.tla'), 'w').write(txt)
    open(os.path.join(d, 'TraceRun.cfg'), 'w').write(c)
    tp = os.path.join(d, 'trace.ndjson')
    n = 0
    with open(tp, 'w') as f:
        for e in ep['events']:
            if e['ev'] in ('sched',) or e['ev'].startswith('ad.') or e.get('p') in ('?', ''):
                continue
            st = e.get('st') or {}
            q = (st.get('q') or [[]])
            d2 = {'ev': e['ev'], 'p': e.get('p', ''), 'job': e.get('job', 0) or 0, 'ok': bool(e.get('ok', True)), 'node': e.get('node', 0) or 0,
                  'n': e.get('n', 0) or 0, 'op': e.get('op', ''), 'seq': e.get('seq', 0), 'hasst': bool(st.get('ws')),
                  'st': {'ws': st.get('ws', ''), 'cur': st.get('cur', 0), 'conc': st.get('conc', 0), 'sig': st.get('sig', 0),
                         'q': [(q[i] if i < len(q) else []) for i in range(nq)], 'idle': st.get('idle') or []}}
            if d2['ev'] == 'rel.enter':
                d2['n'] = int(e.get('n', 0))
            if d2['ev'] == 'call' and d2['op'] in READONLY:
                d2['op'] = 'Nop'
            f.write(json.dumps(d2) + '\n')
            n += 1
    return tp, n


def validate(ep, scratch, tag, timeout=120, diagnose=False):
    d = os.path.join(scratch, 'conf-' + tag)
    tp, n = write_case(ep, d)
    r = vlib.run_tlc('TraceRun', os.path.join(d, 'TraceRun.cfg'), scratch, workers=1, env={'TRACE': tp}, tag='conf-' + tag, timeout=timeout,
                     depth_first=True, heap='2g', extra_modules=[os.path.join(d, 'TraceRun.tla')])
    out = r['out']
    accepted = 'Model checking completed. No error has been found' in out
    res = {'accepted': accepted, 'lines': n, 'states': r.get('distinct', 0), 'wall': r['wall']}
    if not accepted:
        m = re.search(r'"VERIF-HW",\s*(\d+),\s*(\d+)', out)
        res['detail'] = out[-1500:]
        if m:
            res['hw'] = int(m.group(1))
            lines = open(tp).read().split('\n')
            res['stuck_line'] = lines[res['hw'] - 1] if res['hw'] - 1 < len(lines) else ''
            if diagnose:
                res['diag'] = probe(d, scratch, tag, tp, res['hw'])
    return res


def probe(d, scratch, tag, tp, hw):
    """second run: stop at the first state that has consumed hw-1 lines and show how the spec got there"""
    import tlcsum
    pd = os.path.join(d, 'probe')
    os.makedirs(pd, exist_ok=True)
    txt = open(os.path.join(d, 'TraceRun.tla')).read().replace('====', 'Probe == l < %d\n====' % hw)
    open(os.path.join(pd, 'TraceRun.tla'), 'w').write(txt)
    cfg = open(os.path.join(d, 'TraceRun.cfg')).read().replace('POSTCONDITION Accepted', 'INVARIANT Probe')
    cp = os.path.join(pd, 'Probe.cfg')
    open(cp, 'w').write(cfg)
    r = vlib.run_tlc('TraceRun', cp, scratch, workers=1, env={'TRACE': tp}, tag='probe-' + tag, timeout=120, depth_first=True, heap='2g',
                     extra_modules=[os.path.join(pd, 'TraceRun.tla')])
    out = r['out']
    last = out[out.rfind('\nState '):]
    keep = []
    for k in ('ws', 'cur', 'conc', 'q', 'idle', 'sigTok', 'chanNil', 'gen', 'mx', 'lc', 'cond', 'jst', 'nch', 'cache'):
        m = re.search(r'\n\s+%s \|-> (.*?),\n\s+\w+ \|->' % k, last, re.S)
        if m:
            keep.append('%s=%s' % (k, re.sub(r'\s+', ' ', m.group(1))))
    return tlcsum.summarize(out, limit=25) + '\n   state: ' + '; '.join(keep)
