#!/usr/bin/env python3
"""Second layer of hooks (add-only): points between the individual shared-memory operations of one step
(load / compare-and-swap, check / store), so that the gate can also hold a goroutine inside those windows."""
import re, os, sys
R = sys.argv[1] if len(sys.argv) > 1 else '/repo'
def rd(p): return open(os.path.join(R, p)).read()
def wr(p, s): open(os.path.join(R, p), 'w').write(s)
def ins_after(s, anchor, line, count=1):
    a = anchor if anchor.startswith('\n') else '\n' + anchor
    assert s.count(a) == count, (anchor, s.count(a))
    return s.replace(a, a + line)

s = rd('job.go')
s = ins_after(s, "\tfor {\n\t\ts := j.status.Load()\n\n\t\tif s == closed {\n", '', 1)
s = s.replace("\tfor {\n\t\ts := j.status.Load()\n\n\t\tif s == closed {\n", "\tfor {\n\t\ts := j.status.Load()\n\t\tvhook(\"job.sp.load\", j)\n\n\t\tif s == closed {\n")
s = s.replace("\tfor {\n\t\ts := j.status.Load()\n\n\t\tswitch s {\n", "\tfor {\n\t\ts := j.status.Load()\n\t\tvhook(\"job.mc.load\", j)\n\n\t\tswitch s {\n")
s = ins_after(s, "\tif err := j.isCloseable(); err != nil {\n\t\treturn err\n\t}\n", '\tvhook("jclose.checked", j)\n')
wr('job.go', s)
s = rd('group_job.go')
s = ins_after(s, "\tif err := gj.isCloseable(); err != nil {\n\t\treturn err\n\t}\n", '\tvhook("jclose.checked", gj)\n', 3)
wr('group_job.go', s)
s = rd('worker.go')
s = ins_after(s, "\t\tprocessing := w.curProcessing.Load()\n", '\t\tvhook("disp.cas.load")\n')
s = ins_after(s, "\t\tw.workerFunc(j)\n", '\t\tvhook("serve.wfdone", j)\n')
s = ins_after(s, "\tw.lifecycleMx.Lock()\n\tdefer w.lifecycleMx.Unlock()\n", '\tvhook("lifecycle.locked")\n', 2)
s = ins_after(s, "\tif w.status.Load() != running {\n\t\treturn ErrNotRunningWorker\n\t}\n", '\tvhook("tune.checked")\n')
s = ins_after(s, "\t\t\t\tif node.Value.GetLastUsed().Add(interval).Before(time.Now()) {\n", '\t\t\t\t\tvhook("reap.expired", node)\n')
wr('worker.go', s)
n = 0
for p in ['queue.go', 'priority.go']:
    s = rd(p)
    def rep(m):
        global n; n += 1
        return m.group(0) + m.group(1) + 'vhook("add.pre", j)\n'
    s = re.sub(r'(\t+)j\.changeStatus\(queued\)\n', rep, s)
    wr(p, s)
print('add.pre', n)
s = rd('internal/helpers/wg_counter.go')
s = ins_after(s, "\t\tif pt.count.CompareAndSwap(count, count-1) {\n", '\t\t\tvhook("wgc.cas", count)\n')
wr('internal/helpers/wg_counter.go', s)
s = rd('internal/helpers/response.go')
s = ins_after(s, "\tc.res = res\n\tc.mx.Unlock()\n", '\tvhook("resp.stored")\n')
s = ins_after(s, "func (rc *Response[R]) Close() error {\n", '\tvhook("resp.close")\n')
wr('internal/helpers/response.go', s)
wr('internal/helpers/verif_on.go', '''//go:build verif

package helpers

// VerifHook, when set (by a verification harness, before any worker is created), is called at the
// instrumented points of this package. It exists only under the "verif" build tag.
var VerifHook func(label string, args ...any)

func vhook(label string, args ...any) {
	if h := VerifHook; h != nil {
		h(label, args...)
	}
}
''')
wr('internal/helpers/verif_off.go', '''//go:build !verif

package helpers

// vhook marks an instrumentation point for the "verif" build tag; without the tag it does nothing.
func vhook(string, ...any) {}
''')
