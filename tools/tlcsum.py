#!/usr/bin/env python3
"""Compact rendering of a TLC counterexample: one line per state (acting process, changed pcs)."""
import re, sys
def summarize(out, limit=200):
    lines = []
    prev = {}
    for blk in re.split(r'\n(?=State \d+: )', out):
        m = re.match(r'State (\d+): <?(\w+)?(?:\("?([\w.]+)"?\))?', blk)
        if not m:
            continue
        pcs = dict(re.findall(r'(\w+) \|-> "([\w.]+)"', blk[blk.find('pc |->'):blk.find('idle |->')] if 'pc |->' in blk else ''))
        ch = ['%s:%s' % (k, v) for k, v in pcs.items() if prev.get(k) != v and v != 'unborn']
        viol = re.search(r'viol \|-> (\{[^}]*\})', blk)
        lines.append('%3s %-8s %s %s' % (m.group(1), m.group(3) or '', ' '.join(ch), viol.group(1) if viol and viol.group(1) != '{}' else ''))
        prev = pcs
    return '\n'.join(lines[-limit:])
if __name__ == '__main__':
    print(summarize(open(sys.argv[1]).read()))
