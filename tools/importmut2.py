#!/usr/bin/env python3
"""importmut2.py <PROP>[:n[:demo-package-dir[:race]]] ...: confirms a second-round sub-agent change from /tmp/mut/<PROP>
(MUTANTn.diff + mutantN_demo_test.go.txt) in a fresh scratch worktree (applies, builds, the existing suite passes twice,
the demonstration fails with it and passes without it) and keeps it under seeded/B_<PROP>_<n>/."""
import json, os, shutil, subprocess, sys, tempfile
V = os.path.dirname(os.path.dirname(os.path.abspath(__file__)))
ENV = dict(os.environ, GOFLAGS='-mod=mod', GOPROXY='off')
def run(cmd, cwd=None, timeout=1200):
    try:
        return subprocess.run(cmd, cwd=cwd, env=ENV, capture_output=True, text=True, timeout=timeout)
    except subprocess.TimeoutExpired:
        class R: returncode = 124; stdout = ''; stderr = 'timeout'
        return R()
def one(spec):
    parts = spec.split(':')
    prop, n = parts[0], (parts[1] if len(parts) > 1 and parts[1] else '1')
    pkg = parts[2] if len(parts) > 2 and parts[2] else '.'
    race = len(parts) > 3 and parts[3] == 'race'
    src = os.environ.get('MUT_DIR', '/tmp/mut') + '/' + prop
    diff = os.path.join(src, 'MUTANT%s.diff' % n)
    demo = os.path.join(src, 'mutant%s_demo_test.go.txt' % n)
    if not os.path.exists(diff) or not os.path.exists(demo):
        print(spec, 'missing diff or demo'); return
    tmp = tempfile.mkdtemp(prefix='imp-', dir='/var/tmp')
    wt = tmp + '/wt'
    sid = '%s_%s_%s' % (os.environ.get('MUT_PREFIX', 'B'), prop, n)
    try:
        run(['git', '-C', '/repo', 'worktree', 'add', '-q', '--detach', wt, 'HEAD'])
        info = {'id': sid, 'breaks': [prop], 'origin': 'independent sub-agent given only the property text and a scratch worktree (second round)'}
        a = run(['git', '-C', wt, 'apply', diff])
        info['applies'] = a.returncode == 0
        if a.returncode != 0:
            print(spec, 'diff does not apply', a.stderr[:300]); return
        info['builds'] = run(['go', 'build', './...'], cwd=wt).returncode == 0
        suite = [run(['go', 'test', '-vet=off', '-count=1', './...'], cwd=wt).returncode for _ in range(2)]
        info['suite_passes_with_change'] = all(x == 0 for x in suite)
        shutil.copy(demo, os.path.join(wt, pkg, 'mutant%s_demo_test.go' % n))
        democmd = ['go', 'test', '-vet=off', '-count=1'] + (['-race'] if race else []) + ['-run', 'MutantDemo', './' + pkg if pkg != '.' else '.']
        w = run(democmd, cwd=wt)
        info['demo_with_change'] = 'fails' if w.returncode != 0 else 'passes'
        run(['git', '-C', wt, 'apply', '-R', diff])
        wo = [run(democmd, cwd=wt).returncode for _ in range(2)]
        info['demo_without_change'] = 'passes' if all(x == 0 for x in wo) else 'fails'
        info['ran'] = ['git apply MUTANT%s.diff' % n, 'go build ./...', 'go test -vet=off -count=1 ./... (x2)', ' '.join(democmd) + ' (with the change; twice without it)']
        notes = open(os.path.join(src, 'NOTES.md')).read() if os.path.exists(os.path.join(src, 'NOTES.md')) else ''
        info['needs'] = 'see NOTES.md (mutant %s)' % n
        ok = info['builds'] and info['suite_passes_with_change'] and info['demo_with_change'] == 'fails' and info['demo_without_change'] == 'passes'
        info['confirmed'] = ok
        print(spec, {k: v for k, v in info.items() if k not in ('ran', 'origin', 'needs')}, flush=True)
        if ok:
            d = os.path.join(V, 'seeded', sid)
            os.makedirs(d, exist_ok=True)
            shutil.copy(diff, os.path.join(d, 'patch.diff'))
            shutil.copy(demo, os.path.join(d, os.path.basename(demo)))
            if notes:
                open(os.path.join(d, 'NOTES.md'), 'w').write(notes)
            json.dump(info, open(os.path.join(d, 'meta.json'), 'w'), indent=1)
    finally:
        run(['git', '-C', '/repo', 'worktree', 'remove', '--force', wt])
        shutil.rmtree(tmp, ignore_errors=True)
if __name__ == '__main__':
    for s in sys.argv[1:]:
        one(s)
