#!/usr/bin/env python3
"""regen.py <property> <seed> <episode id> [tier]: regenerates the base gated program of a check run (e.g. C09g20) and writes it to stdout"""
import sys, os, json, random
sys.path.insert(0, os.path.dirname(os.path.abspath(__file__)))
import progs, check
pid, seed, epid = sys.argv[1], int(sys.argv[2]), sys.argv[3]
tier = sys.argv[4] if len(sys.argv) > 4 else 'quick'
rng = random.Random(seed * 7919 + int(pid[1:]))
fams, nq, nt = check.PLAN[pid]['gated']
gated = progs.generate(fams, nq if tier == 'quick' else nt, rng.randrange(1 << 30), prefix=pid + 'g')
for p in gated:
    if p['id'] == epid:
        print(json.dumps(p))
