#!/usr/bin/env python3
"""Re-bases the sub-agent patches (seeded/A_*) onto /repo HEAD after hook lines were added around them:
git apply, else patch --fuzz, else a manual port (the hook line stays right after the load it followed)."""
import json, os, subprocess, shutil, sys, tempfile
V = os.path.dirname(os.path.dirname(os.path.abspath(__file__)))
ENV = dict(os.environ, GOFLAGS='-mod=mod', GOPROXY='off')
MANUAL = {
 'A_C02': [('worker.go', "\tfor {\n\t\tprocessing := w.curProcessing.Load()\n\t\tvhook(\"disp.cas.load\")\n\n\t\tif processing >= w.concurrency.Load() {\n\t\t\treturn nil\n\t\t}\n\n\t\tif w.curProcessing.CompareAndSwap(processing, processing+1) {\n\t\t\tbreak\n\t\t}\n\t}\n",
            "\t// Slots are only ever taken here, by the event loop; completions can only lower the count\n\t// in the meantime, so checking the limit and then adding is enough.\n\tprocessing := w.curProcessing.Load()\n\tvhook(\"disp.cas.load\")\n\n\tif processing >= w.concurrency.Load() {\n\t\treturn nil\n\t}\n\n\tw.curProcessing.Add(1)\n")],
 'A_C10': [('job.go', "\tfor {\n\t\ts := j.status.Load()\n\t\tvhook(\"job.sp.load\", j)\n\n\t\tif s == closed {\n\t\t\treturn false\n\t\t}\n\n\t\tif j.status.CompareAndSwap(s, processing) {\n\t\t\treturn true\n\t\t}\n\t}\n",
            "\ts := j.status.Load()\n\tvhook(\"job.sp.load\", j)\n\n\tif s == closed {\n\t\treturn false\n\t}\n\n\t// only the dispatcher moves a job to processing, a plain store is enough\n\tj.changeStatus(processing)\n\n\treturn true\n")],
}
def run(cmd, cwd=None, inp=None):
    return subprocess.run(cmd, cwd=cwd, env=ENV, capture_output=True, text=True, input=inp, timeout=900)
tmp = tempfile.mkdtemp(prefix='reb-', dir='/var/tmp')
wt = tmp + '/wt'
run(['git', '-C', '/repo', 'worktree', 'add', '-q', '--detach', wt, 'HEAD'])
try:
    for sid in sorted(os.listdir(os.path.join(V, 'seeded'))):
        d = os.path.join(V, 'seeded', sid)
        if not sid.startswith('A_') or not os.path.isdir(d):
            continue
        run(['git', '-C', wt, 'checkout', '-q', '--', '.']); run(['git', '-C', wt, 'clean', '-fdq'])
        diff = os.path.join(d, 'patch.diff')
        how = 'apply'
        if run(['git', '-C', wt, 'apply', diff]).returncode != 0:
            how = 'fuzz'
            if run(['patch', '-p1', '--fuzz=3', '-s', '--no-backup-if-mismatch'], cwd=wt, inp=open(diff).read()).returncode != 0:
                run(['git', '-C', wt, 'checkout', '-q', '--', '.']); run(['git', '-C', wt, 'clean', '-fdq'])
                how = 'manual'
                if sid not in MANUAL:
                    print(sid, 'CANNOT REBASE'); continue
                for path, old, new in MANUAL[sid]:
                    s = open(os.path.join(wt, path)).read()
                    assert s.count(old) == 1, (sid, path)
                    open(os.path.join(wt, path), 'w').write(s.replace(old, new))
        for f in os.listdir(wt):
            if f.endswith('.orig') or f.endswith('.rej'):
                os.remove(os.path.join(wt, f))
        b = run(['go', 'build', './...'], cwd=wt)
        t = run(['go', 'test', '-vet=off', '-count=1', './...'], cwd=wt)
        newdiff = run(['git', '-C', wt, 'diff']).stdout
        demos = [f for f in os.listdir(d) if f.startswith('mutant_demo') and f.endswith('.txt')]
        for f in demos:
            shutil.copy(os.path.join(d, f), os.path.join(wt, f[:-4]))
        w = run(['go', 'test', '-vet=off', '-count=1', '-run', 'Mutant', '.'], cwd=wt) if demos else None
        meta = json.load(open(os.path.join(d, 'meta.json')))
        meta['rebased'] = {'how': how, 'builds': b.returncode == 0, 'suite_passes_with_change': t.returncode == 0,
                           'demo_with_change': None if w is None else ('fails' if w.returncode != 0 else 'passes')}
        print(sid, meta['rebased'])
        if b.returncode == 0:
            open(diff, 'w').write(newdiff)
            json.dump(meta, open(os.path.join(d, 'meta.json'), 'w'), indent=1)
finally:
    run(['git', '-C', '/repo', 'worktree', 'remove', '--force', wt])
    shutil.rmtree(tmp, ignore_errors=True)
