#!/usr/bin/env python3
"""Seeded generators of client programs (the 'program families' of DESIGN.md section 6)."""
import random

WKS = ['plain', 'err', 'result']
SCHEDS = ['random', 'pct', 'pct', 'starve', 'rush', 'hold', 'hold', 'hold', 'hold']
HOLD_LABELS = ['call', 'wf.enter', 'wf.exit', 'add.enq', 'loop.wake', 'loop.pass', 'loop.idle', 'disp.reserve', 'disp.deq', 'disp.proc',
               'disp.node', 'disp.sent', 'disp.release', 'serve.recv', 'serve.fin', 'serve.closed', 'serve.freed', 'serve.rel',
               'rel.enter', 'rel.bcast', 'jclose.marked', 'wuf.locked', 'wuf.wait', 'wuf.woken', 'pause.load', 'resume.check',
               'resume.stored', 'stop.waited', 'stop.chans', 'stop.nodes', 'stopall.removed', 'restart.waited', 'restart.closed',
               'restart.newchans', 'restart.reset', 'start.enter', 'start.node', 'node.init', 'tune.stored', 'tune.popped',
               'purge.deq', 'job.sp.load', 'job.mc.load', 'jclose.checked', 'disp.cas.load', 'serve.wfdone', 'lifecycle.locked', 'tune.checked', 'reap.expired', 'add.pre', 'wgc.cas', 'resp.stored', 'resp.close', 'mgr.register', 'ad.sub', 'reap.tick', 'reap.snap', 'reap.removed', 'reap.stopped', 'ctx.fired', 'sub.notify', 'free.push', 'free.stop', 'bind.sub', 'wgc.load', 'wrap.wf', 'wrap.ret', 'q.len', 'q.deq', 'q.enq']


def sched(rng, procs=('disp', 'pg', 'c', 'w', 'ctl', 'x')):
    k = rng.choice(SCHEDS)
    s = {'kind': k, 'seed': rng.randrange(1 << 30)}
    if k == 'pct':
        s['depth'] = rng.choice([1, 2, 3])
    if k in ('starve', 'rush'):
        s['favor'] = rng.choice(procs)
    if k == 'hold':
        s['label'] = rng.choice(HOLD_LABELS)
        s['nth'] = rng.choice([0, 0, 1, 2, 3])
    return s


def outcomes(rng, jobs, p_bad=0.25):
    out = {}
    for j in jobs:
        r = rng.random()
        if r < p_bad / 2:
            out[str(j)] = 'err'
        elif r < p_bad:
            out[str(j)] = 'panic'
    return out


class Builder:
    def __init__(self, rng, family, pid):
        self.rng, self.family, self.pid = rng, family, pid
        self.next_job = 1
        self.next_batch = 1
        self.clients = []
        self.jobs = []
        self.jobq = {}

    def job(self, q=0):
        j = self.next_job
        self.next_job += 1
        self.jobs.append(j)
        self.jobq[j] = q
        return j

    def add(self, q=0, prio_range=None):
        j = self.job(q)
        op = {'op': 'Add', 'q': q, 'job': j}
        if prio_range:
            op['prio'] = self.rng.choice(prio_range)
        return op

    def addall(self, q, n, prio_range=None):
        b = self.next_batch
        self.next_batch += 1
        items = []
        for _ in range(n):
            it = {'job': self.job(q)}
            if prio_range:
                it['prio'] = self.rng.choice(prio_range)
            items.append(it)
        return {'op': 'AddAll', 'q': q, 'b': b, 'items': items}, b

    def client(self, name, ops):
        self.clients.append({'name': name, 'ops': ops})

    def prog(self, cfg, sch=None, **kw):
        p = {'id': self.pid, 'family': self.family, 'cfg': cfg, 'clients': self.clients,
             'outcome': outcomes(self.rng, self.jobs), 'sched': sch or sched(self.rng)}
        p.update(kw)
        return p


PRIOS = [-2, -1, 0, 0, 1, 1, 3]


_STRAT = None      # set by generate(): the k-th program of a family; worker kind x queue kind are cycled, not drawn, so that
                   # every one of the library's Add/AddAll/Bind implementations (one per combination) is visited evenly


def late_producer(rng, b, q=0, pr=None):
    """a producer whose submission comes late (a run of scheduling points first): it lands while the earlier jobs are completing,
    e.g. between a completion's look at the queue and its wake-up of the event loop"""
    return [{'op': 'Yield'}] * rng.choice([10, 20, 40]) + [b.add(q, pr)] + ([{'op': 'WUF'}] if rng.random() < 0.5 else [])


def inspector(rng):
    """a client that only reads: the introspection calls of the Worker interface, concurrently with whatever the others do"""
    return [{'op': rng.choice(['Introspect', 'Introspect', 'WStatus', 'NumIdle', 'NumProcessing', 'Metrics', 'NumConc'])} for _ in range(rng.choice([2, 3, 5]))]


def base_cfg(rng, wk=None, qkind=None, conc=None):
    qk0, wk0 = rng.choice(['fifo', 'fifo', 'prio']), rng.choice(WKS)      # (drawn in any case: keeps the random stream stable)
    if _STRAT is not None:
        wk0, qk0 = WKS[_STRAT % 3], ['fifo', 'prio'][(_STRAT // 3) % 2]
    qk = qkind or qk0
    idg = rng.random() < 0.15          # the worker has an ID generator and the submissions choose no ID
    return {'idgen': idg, 'wk': wk or wk0, 'conc': conc or rng.choice([1, 1, 2, 3]), 'queues': [qk],
            'errs_reader': rng.random() < 0.5}


def fam_basic(rng, pid):
    """producers, optional waiters on handles, a final WaitUntilFinished"""
    b = Builder(rng, 'basic', pid)
    cfg = base_cfg(rng)
    pr = PRIOS if cfg['queues'][0] == 'prio' else None
    nprod = rng.choice([1, 1, 2, 3])
    for i in range(nprod):
        ops = []
        for _ in range(rng.choice([1, 2, 3, 4])):
            ops.append(b.add(0, pr))
            if rng.random() < 0.3:
                ops.append({'op': 'Status', 'job': ops[-1]['job']})
        if rng.random() < 0.7:
            ops.append({'op': 'WUF'})
        if rng.random() < 0.4:
            ops.append({'op': rng.choice(['NumPending', 'NumProcessing', 'Metrics', 'QPending', 'NumIdle'])})
        b.client('c%d' % (i + 1), ops)
    for i in range(rng.choice([0, 1, 2])):
        ops = []
        for _ in range(rng.choice([1, 2, 3])):
            j = rng.choice(b.jobs)
            ops.append({'op': rng.choice(['Wait', 'Result', 'Status', 'Wait', 'Info']), 'job': j})
            if rng.random() < 0.5:
                ops.append({'op': 'Status', 'job': j})
        b.client('w%d' % (i + 1), ops)
    if rng.random() < 0.3:
        b.client('late', late_producer(rng, b, 0, pr))
    return b.prog(cfg)


def fam_barrier(rng, pid):
    """tight Add; WaitUntilFinished loops from several clients, plus PauseAndWait/Resume"""
    b = Builder(rng, 'barrier', pid)
    cfg = base_cfg(rng)
    pr = PRIOS if cfg['queues'][0] == 'prio' else None
    for i in range(rng.choice([1, 2, 2, 3])):
        ops = []
        for _ in range(rng.choice([1, 2, 3])):
            ops.append(b.add(0, pr))
            if rng.random() < 0.7:
                ops.append({'op': 'WUF'})
        ops.append({'op': 'WUF'})
        b.client('c%d' % (i + 1), ops)
    if rng.random() < 0.4:
        ops = []
        for _ in range(rng.choice([1, 2])):
            ops.append({'op': rng.choice(['PauseAndWait', 'Pause'])})
            if rng.random() < 0.5:
                ops.append({'op': 'NumProcessing'})
            ops.append({'op': 'Resume'})
        b.client('ctl', ops)
    return b.prog(cfg)


def fam_ctl(rng, pid):
    """continuous submission with a controller issuing lifecycle calls; ends resumed so that everything finishes"""
    b = Builder(rng, 'ctl', pid)
    cfg = base_cfg(rng)
    if rng.random() < 0.3:
        cfg['expiry_us'] = rng.choice([300, 1000])
    pr = PRIOS if cfg['queues'][0] == 'prio' else None
    for i in range(rng.choice([1, 2])):
        ops = [b.add(0, pr) for _ in range(rng.choice([2, 3, 4, 5]))]
        b.client('c%d' % (i + 1), ops)
    ops = []
    for _ in range(rng.choice([1, 2, 3])):
        k = rng.random()
        if k < 0.3:
            ops += [{'op': 'PauseAndWait'}, {'op': 'NumProcessing'}, {'op': 'Resume'}]
        elif k < 0.45:
            ops += [{'op': 'Pause'}, {'op': 'Resume'}]
        elif k < 0.52:
            ops += [{'op': 'Stop'}, {'op': 'NumProcessing'}, {'op': 'Restart'}]
        elif k < 0.6:
            ops += [{'op': 'Pause'}, {'op': rng.choice(['Stop', 'WaitAndStop'])}, {'op': 'NumProcessing'}, {'op': 'Restart'}]
        elif k < 0.7:
            ops += [{'op': 'Restart'}]
        elif k < 0.8:
            ops += [{'op': 'WaitAndStop'}, {'op': 'Restart'}]
        else:
            ops += [{'op': 'TunePool', 'n': rng.choice([1, 2, 3])}]
    ops.append({'op': 'WUF'})
    b.client('ctl', ops)
    if rng.random() < 0.3:
        b.client('x', [{'op': rng.choice(['Pause', 'PauseAndWait'])}, {'op': 'Resume'}, {'op': 'WUF'}])
    if rng.random() < 0.4:
        b.client('insp', inspector(rng))
    return b.prog(cfg)


def fam_storm(rng, pid):
    """many short jobs on a wide pool, most of them failing or panicking, nobody reading Errs(): the sites that only real
    parallelism reaches (error channel, shared counters, simultaneous completions).  Meant for free-running executions."""
    b = Builder(rng, 'storm', pid)
    cfg = base_cfg(rng, conc=rng.choice([4, 6, 8]))
    cfg['errs_reader'] = rng.random() < 0.2
    pr = PRIOS if cfg['queues'][0] == 'prio' else None
    nprod = rng.choice([1, 2, 3])
    for i in range(nprod):
        ops = []
        for _ in range(rng.choice([2, 3])):
            if rng.random() < 0.5:
                op, bid = b.addall(0, rng.choice([4, 6, 8]), pr)
                ops += [op, {'op': rng.choice(['BatchWait', 'BatchRead']), 'b': bid}]
            else:
                ops += [b.add(0, pr) for _ in range(rng.choice([4, 6, 8]))]
        ops.append({'op': 'WUF'})
        ops.append({'op': 'Metrics'})
        b.client('c%d' % (i + 1), ops)
    p = b.prog(cfg)
    p['outcome'] = outcomes(rng, b.jobs, p_bad=rng.choice([0.5, 0.9, 1.0]))
    return p


def fam_flood(rng, pid):
    """free-running only: thousands of failing jobs on a wide pool, nobody reads Errs(), only the quiescence line is logged - many
    pool goroutines report an error at the same moment (the window of a blocking hand-over in sendError and the like)"""
    wk = rng.choice(WKS)
    cfg = {'idgen': False, 'wk': wk, 'conc': rng.choice([4, 8, 8]), 'queues': [rng.choice(['fifo', 'fifo', 'prio'])], 'errs_reader': False,
           'flood': 'panic' if wk == 'plain' else rng.choice(['err', 'err', 'panic']), 'quiet': True}
    n = rng.choice([12000, 20000])
    return {'id': pid, 'family': 'flood', 'cfg': cfg, 'clients': [{'name': 'c1', 'ops': [{'op': 'Flood', 'q': 0, 'job': 1, 'n': n}, {'op': 'WUF'}]}],
            'outcome': {}, 'sched': {'kind': 'free', 'seed': rng.randrange(1 << 30)}}


def fam_wq(rng, pid):
    """small programs on a gate-instrumented queue (kinds wfifo / wprio): every read of the queue length and every dequeue inside the
    library is a scheduling point, so the windows around them (condition checks of the event loop, of WaitUntilFinished, of
    releaseWaiters and freePoolNode; strategies; Purge) are reachable by the gate"""
    b = Builder(rng, 'wq', pid)
    cfg = base_cfg(rng, conc=rng.choice([1, 1, 2]))
    cfg['queues'] = ['w' + cfg['queues'][0]]
    pr = PRIOS if cfg['queues'][0] == 'wprio' else None
    ops = [b.add(0, pr) for _ in range(rng.choice([2, 3]))]
    r = rng.random()
    if r < 0.5:
        ops.append({'op': 'WUF'})
    elif r < 0.7:
        ops += [{'op': 'Wait', 'job': ops[-1]['job']}]
    b.client('c1', ops)
    k = rng.random()
    if k < 0.25:
        b.client('x', [{'op': rng.choice(['PauseAndWait', 'Pause'])}, {'op': 'NumProcessing'}, {'op': 'Resume'}, {'op': 'WUF'}])
    elif k < 0.4:
        b.client('x', [{'op': 'Purge', 'q': 0}, {'op': 'WUF'}])
    elif k < 0.55:
        b.client('x', [{'op': 'Close', 'job': rng.choice(b.jobs)}, {'op': 'WUF'}])
    elif k < 0.7:
        b.client('x', [{'op': 'Stop'}, {'op': 'NumProcessing'}, {'op': 'Restart'}, {'op': 'WUF'}])
    elif k < 0.8:
        b.client('x', [{'op': 'WUF'}, {'op': 'NumPending'}])
    if rng.random() < 0.3:
        b.client('c2', [b.add(0, pr), {'op': 'WUF'}])
    if rng.random() < 0.3:
        b.client('late', late_producer(rng, b, 0, pr))
    cfg['strategy'] = rng.choice(['rr', 'max', 'min'])      # (one queue: the strategies differ only in how they lock the manager)
    p = b.prog(cfg)
    p['max_step'] = 8000
    return p


def fam_cycles(rng, pid):
    """repeated Stop / Pause / Restart cycles of one worker (with and without context and idle expiry), a little work in between:
    nothing may accumulate - goroutines, idle workers, listeners, tickers"""
    b = Builder(rng, 'cycles', pid)
    cfg = base_cfg(rng, conc=rng.choice([1, 1, 2, 3]))
    cfg['ctx'] = rng.random() < 0.4
    cfg['expiry_us'] = rng.choice([0, 0, 300])
    cfg['ratio'] = rng.choice([0, 0, 50, 100])
    pr = PRIOS if cfg['queues'][0] == 'prio' else None
    ops = []
    tuned = cfg['conc'] > 1 and rng.random() < 0.5
    if tuned:
        ops.append({'op': 'TunePool', 'n': rng.randrange(1, cfg['conc'])})      # the cycles must leave the tuned limit alone
    for _ in range(rng.choice([2, 3, 4])):
        if rng.random() < 0.5:
            ops.append(b.add(0, pr))
        r = rng.random()
        if r < 0.3:
            ops += [{'op': 'Stop'}, {'op': 'Restart'}]
        elif r < 0.55:
            ops += [{'op': rng.choice(['Pause', 'PauseAndWait'])}, {'op': 'Restart'}]
        elif r < 0.75:
            ops += [{'op': 'Restart'}]
        elif r < 0.9:
            ops += [{'op': 'WaitAndStop'}, {'op': 'Restart'}]
        else:
            ops += [{'op': 'Pause'}, {'op': 'Resume'}]
        if rng.random() < 0.3:
            ops.append({'op': 'NumIdle'})
    ops += [{'op': 'NumConc'}] + [b.add(0, pr) for _ in range(cfg['conc'] + 1 if tuned else 1)] + [{'op': 'WUF'}, {'op': 'NumIdle'}]
    if rng.random() < 0.3:
        ops.append({'op': 'Stop'})
    b.client('ctl', ops)
    if rng.random() < 0.3:
        b.client('insp', inspector(rng))
    return b.prog(cfg)


def fam_stop2(rng, pid):
    """several clients stop / restart / resume the worker at the same time while jobs are pending or in flight"""
    b = Builder(rng, 'stop2', pid)
    cfg = base_cfg(rng)
    cfg['ctx'] = rng.random() < 0.25
    if rng.random() < 0.25:
        cfg['expiry_us'] = rng.choice([300, 1000])
    pr = PRIOS if cfg['queues'][0] == 'prio' else None
    b.client('c1', [b.add(0, pr) for _ in range(rng.choice([1, 2, 3]))] + ([{'op': 'WUF'}] if rng.random() < 0.3 else []))
    stoppers = rng.choice([2, 2, 3])
    for i in range(stoppers):
        r = rng.random()
        if r < 0.45:
            ops = [{'op': 'Stop'}]
        elif r < 0.65:
            ops = [{'op': 'WaitAndStop'}]
        elif r < 0.8:
            ops = [{'op': rng.choice(['PauseAndWait', 'Pause'])}, {'op': 'Stop'}]
        elif r < 0.9:
            ops = [{'op': 'Pause'}, {'op': 'Resume'}]
        else:
            ops = [{'op': 'CancelCtx'}] if cfg['ctx'] else [{'op': 'Stop'}]
        if rng.random() < 0.4:
            ops += [{'op': 'NumProcessing'}]
        if i == 0 and rng.random() < 0.6:
            ops += [{'op': 'Restart'}, {'op': 'WUF'}]
        elif rng.random() < 0.2:
            ops += [{'op': rng.choice(['Resume', 'Restart'])}]
        b.client(['ctl', 'x', 'y'][i], ops)
    return b.prog(cfg)


def fam_cancel(rng, pid):
    """Close / Purge / QClose racing dispatch and completion"""
    b = Builder(rng, 'cancel', pid)
    cfg = base_cfg(rng)
    pr = PRIOS if cfg['queues'][0] == 'prio' else None
    paused = rng.random() < 0.3
    for i in range(rng.choice([1, 2])):
        ops = []
        if paused and i == 0:
            ops.append({'op': 'Pause'})
        for _ in range(rng.choice([2, 3, 4])):
            ops.append(b.add(0, pr))
            r = rng.random()
            if r < 0.35:
                ops.append({'op': 'Close', 'job': rng.choice(b.jobs)})
            elif r < 0.45:
                ops.append({'op': 'Purge', 'q': 0})
        if paused and i == 0:
            ops.append({'op': 'Resume'})
        if rng.random() < 0.6:
            ops.append({'op': 'WUF'})
        b.client('c%d' % (i + 1), ops)
    ops = []
    for _ in range(rng.choice([1, 2, 3])):
        r = rng.random()
        j = rng.choice(b.jobs)
        if r < 0.5:
            ops.append({'op': 'Close', 'job': j})
            if rng.random() < 0.4:
                ops.append({'op': 'Close', 'job': j})
        elif r < 0.7:
            ops.append({'op': 'Purge', 'q': 0})
        elif r < 0.8:
            ops.append({'op': 'QClose', 'q': 0})
        else:
            ops.append({'op': rng.choice(['Wait', 'Result']), 'job': j})
    b.client('x', ops)
    if rng.random() < 0.5:
        b.client('w1', [{'op': rng.choice(['Wait', 'Result']), 'job': rng.choice(b.jobs)} for _ in range(rng.choice([1, 2]))])
    return b.prog(cfg)


def fam_batch(rng, pid):
    b = Builder(rng, 'batch', pid)
    cfg = base_cfg(rng, conc=rng.choice([1, 2, 2, 3, 4]))
    pr = PRIOS if cfg['queues'][0] == 'prio' else None
    ops = []
    bs = []
    for _ in range(rng.choice([1, 1, 2])):
        op, bid = b.addall(0, rng.choice([0, 1, 2, 2, 3, 4]), pr)
        ops.append(op)
        bs.append(bid)
        if rng.random() < 0.3:
            ops.append({'op': 'BatchPending', 'b': bid})
    for bid in bs:
        ops.append({'op': rng.choice(['BatchRead', 'BatchWait', 'BatchRead']), 'b': bid})
        if rng.random() < 0.5:
            ops.append({'op': 'BatchPending', 'b': bid})
    b.client('c1', ops)
    for i, bid in enumerate(bs):
        if rng.random() < 0.5:
            b.client('w%d' % (i + 1), [{'op': rng.choice(['BatchWait', 'BatchPending']), 'b': bid}, {'op': 'BatchPending', 'b': bid}])
    r = rng.random()
    if r < 0.25:
        b.client('x', [{'op': 'Purge', 'q': 0}])
    elif r < 0.4:
        b.client('x', [{'op': 'QClose', 'q': 0}])
    elif r < 0.55:
        b.client('x', [{'op': 'PauseAndWait'}, {'op': 'Purge', 'q': 0}, {'op': 'Resume'}])
    p = b.prog(cfg)
    if rng.random() < 0.3:
        # every item fails (error or panic) and nobody reads the stream while the batch runs: the stream has to hold them all
        p['outcome'] = {str(j): rng.choice(['err', 'panic']) for j in b.jobs}
        for c in p['clients']:
            for o in c['ops']:
                if o['op'] == 'BatchRead' and rng.random() < 0.7:
                    o['op'] = 'BatchWait'
    return p


def fam_handle(rng, pid):
    """several waiters per handle, repeated calls, Drain"""
    b = Builder(rng, 'handle', pid)
    cfg = base_cfg(rng)
    pr = PRIOS if cfg['queues'][0] == 'prio' else None
    ops = [b.add(0, pr) for _ in range(rng.choice([1, 2, 3]))]
    for j in list(b.jobs):
        if rng.random() < 0.5:
            ops.append({'op': rng.choice(['Result', 'Wait', 'Result']), 'job': j})
    b.client('c1', ops)
    for i in range(rng.choice([1, 2, 3])):
        j = rng.choice(b.jobs)
        ops = [{'op': rng.choice(['Wait', 'Result', 'Result', 'Status', 'Info']), 'job': j} for _ in range(rng.choice([1, 2, 3]))]
        if rng.random() < 0.15 and cfg['wk'] != 'plain':
            ops.insert(0, {'op': 'Drain', 'job': j})
        b.client('w%d' % (i + 1), ops)
    if rng.random() < 0.3:
        b.client('x', [{'op': 'Close', 'job': rng.choice(b.jobs)}])
    return b.prog(cfg)


def fam_pool(rng, pid):
    """idle-worker expiry, min idle ratio, TunePool under load, Stop/Restart cycles"""
    b = Builder(rng, 'pool', pid)
    cfg = base_cfg(rng, conc=rng.choice([1, 2, 3, 4]))
    cfg['expiry_us'] = rng.choice([0, 0, 200, 500, 1000])
    cfg['ratio'] = rng.choice([0, 1, 50, 100])
    cfg['ctx'] = rng.random() < 0.3
    pr = PRIOS if cfg['queues'][0] == 'prio' else None
    for i in range(rng.choice([1, 2])):
        b.client('c%d' % (i + 1), [b.add(0, pr) for _ in range(rng.choice([2, 3, 4, 6]))] + [{'op': 'WUF'}])
    ops = []
    for _ in range(rng.choice([1, 2, 3])):
        r = rng.random()
        if r < 0.5:
            ops.append({'op': 'TunePool', 'n': rng.choice([1, 2, 3, 4])})
        elif r < 0.62:
            ops += [{'op': 'Stop'}, {'op': 'Restart'}]
        elif r < 0.72:
            ops += [{'op': rng.choice(['Pause', 'PauseAndWait'])}, {'op': 'Restart'}, {'op': 'NumIdle'}]
        elif r < 0.8:
            ops += [{'op': 'Restart'}]
        else:
            ops.append({'op': 'NumIdle'})
    ops.append({'op': 'WUF'})
    if rng.random() < 0.4:
        ops.append({'op': 'Stop'})
    b.client('ctl', ops)
    if rng.random() < 0.4:
        b.client('insp', inspector(rng))
    return b.prog(cfg)


def fam_multi(rng, pid):
    """several queues of different kinds bound to one worker, all three strategies, preloaded while paused"""
    b = Builder(rng, 'multi', pid)
    nq = rng.choice([2, 2, 3])
    kinds = [rng.choice(['fifo', 'prio', 'pfifo', 'pprio']) for _ in range(nq)]
    cfg = {'wk': 'plain', 'conc': rng.choice([1, 1, 2]), 'queues': kinds, 'strategy': rng.choice(['rr', 'max', 'min']),
           'errs_reader': rng.random() < 0.5}
    ops = [{'op': 'Pause'}]
    adds = []
    for q in range(nq):
        for _ in range(rng.choice([0, 1, 2, 3])):
            adds.append(b.add(q, PRIOS if kinds[q] in ('prio', 'pprio') else None))
    rng.shuffle(adds)
    ops += adds
    ops += [{'op': 'NumPending'}] + [{'op': 'QPending', 'q': q} for q in range(nq)]
    ops += [{'op': 'Resume'}, {'op': 'WUF'}]
    b.client('c1', ops)
    if rng.random() < 0.4:
        b.client('c2', [b.add(rng.randrange(nq)) for _ in range(rng.choice([1, 2]))])
    return b.prog(cfg)


def fam_multim(rng, pid):
    """several in-memory queues on one worker (the configurations spec/VarMQ.tla models: conformance-eligible): all three
    strategies, concurrent producers on different queues, Purge / Close of one queue, Pause/Resume around a preloaded backlog"""
    b = Builder(rng, 'multim', pid)
    nq = rng.choice([2, 2, 3])
    kinds = [rng.choice(['fifo', 'fifo', 'prio']) for _ in range(nq)]
    cfg = {'wk': rng.choice(WKS), 'conc': rng.choice([1, 1, 2]), 'queues': kinds, 'strategy': rng.choice(['rr', 'rr', 'max', 'min']),
           'errs_reader': rng.random() < 0.5}
    paused = rng.random() < 0.6
    ops = [{'op': 'Pause'}] if paused else []
    adds = []
    for q in range(nq):
        for _ in range(rng.choice([0, 1, 2, 3])):
            adds.append(b.add(q, PRIOS if kinds[q] == 'prio' else None))
    rng.shuffle(adds)
    ops += adds
    if rng.random() < 0.5:
        ops += [{'op': 'NumPending'}] + [{'op': 'QPending', 'q': q} for q in range(nq)]
    if paused:
        ops += [{'op': 'Resume'}]
    ops += [{'op': 'WUF'}, {'op': 'NumPending'}]
    b.client('c1', ops)
    for i in range(rng.choice([0, 1, 1, 2])):
        q = rng.randrange(nq)
        ops = [b.add(q, PRIOS if kinds[q] == 'prio' else None) for _ in range(rng.choice([1, 2, 3]))]
        if rng.random() < 0.4:
            ops.append({'op': 'WUF'})
        b.client('c%d' % (i + 2), ops)
    r = rng.random()
    if r < 0.25:
        b.client('x', [{'op': 'Purge', 'q': rng.randrange(nq)}])
    elif r < 0.35:
        b.client('x', [{'op': 'QClose', 'q': rng.randrange(nq)}, {'op': 'QPending', 'q': 0}])
    elif r < 0.5 and not paused:
        b.client('x', [{'op': 'PauseAndWait'}, {'op': 'NumProcessing'}, {'op': 'Resume'}])
    return b.prog(cfg)


REJECT_KINDS = [('plain', 'fifo'), ('plain', 'prio'), ('err', 'fifo'), ('err', 'prio'), ('result', 'fifo'), ('result', 'prio'),
                ('plain', 'pfifo'), ('plain', 'pprio'), ('plain', 'dfifo'), ('plain', 'dprio')]


def fam_reject(rng, pid):
    """rejected submissions on every kind of queue (one Add and one AddAll implementation per worker kind x queue kind): a
    closed in-memory queue, an adapter that refuses the enqueue; accepted ones around them; counters and handles afterwards"""
    b = Builder(rng, 'reject', pid)
    wk, qk = REJECT_KINDS[(_STRAT if _STRAT is not None else rng.randrange(10)) % len(REJECT_KINDS)]
    cfg = {'wk': wk, 'conc': rng.choice([1, 2]), 'queues': [qk], 'errs_reader': rng.random() < 0.5}
    pr = PRIOS if qk in ('prio', 'pprio', 'dprio') else None
    mem = qk in ('fifo', 'prio')
    ops = [b.add(0, pr) for _ in range(rng.choice([1, 2]))]
    faults = None
    if mem:
        ops.append({'op': 'QClose', 'q': 0})
        ops += [b.add(0, pr) for _ in range(rng.choice([1, 2]))]
        if rng.random() < 0.7:
            op, bid = b.addall(0, rng.choice([1, 2, 3]), pr)
            ops += [op, {'op': 'BatchWait', 'b': bid}, {'op': 'BatchPending', 'b': bid}]
    else:
        n_more = rng.choice([2, 3])
        ops += [b.add(0, pr) for _ in range(n_more)]
        faults = {'enq': sorted(set(rng.randrange(1, 1 + n_more + 1) for _ in range(rng.choice([1, 2]))))}
    ops += [{'op': 'WUF'}, {'op': 'Metrics'}, {'op': 'NumPending'}, {'op': 'QPending', 'q': 0}]
    for j in list(b.jobs)[:3]:
        if mem:
            ops.append({'op': rng.choice(['Wait', 'Status']), 'job': j})
    b.client('c1', ops)
    if rng.random() < 0.4:
        b.client('c2', [b.add(0, pr) for _ in range(rng.choice([1, 2]))] + [{'op': 'Metrics'}])
    p = b.prog(cfg)
    if faults:
        p['faults'] = faults
    return p


RAW_KINDS = ['undecodable', 'badstatus', 'foreign', 'closed', 'trailing']


def fam_adapter(rng, pid):
    """persistent / distributed queues on a recording adapter: faults, bad entries, pause/resume"""
    b = Builder(rng, 'adapter', pid)
    kind = rng.choice(['pfifo', 'pprio', 'dfifo', 'dprio'])
    cfg = {'wk': 'plain', 'conc': rng.choice([1, 1, 2, 3]), 'queues': [kind], 'errs_reader': rng.random() < 0.5}
    pr = PRIOS if kind in ('pprio', 'dprio') else None
    paused = rng.random() < 0.4
    nprod = rng.choice([1, 1, 2])
    for i in range(nprod):
        ops = []
        if paused and i == 0:
            ops.append({'op': 'Pause'})
        for _ in range(rng.choice([2, 3, 4, 5])):
            ops.append(b.add(0, pr))
            if rng.random() < 0.25:
                ops.append({'op': 'Raw', 'q': 0, 'kind': rng.choice(RAW_KINDS), 'prio': rng.choice(PRIOS) if pr else 0})
        if paused and i == 0:
            ops.append({'op': 'QPending', 'q': 0})
            ops.append({'op': 'Resume'})
        ops.append({'op': 'WUF'})
        b.client('c%d' % (i + 1), ops)
    if rng.random() < 0.3:
        b.client('ctl', [{'op': rng.choice(['PauseAndWait', 'Pause'])}, {'op': 'Resume'}, {'op': 'WUF'}])
    p = b.prog(cfg)
    if rng.random() < 0.5:
        f = {}
        for call in ('enq', 'deq', 'ack'):
            if rng.random() < 0.5:
                f[call] = sorted(set(rng.randrange(6) for _ in range(rng.choice([1, 2]))))
        p['faults'] = f
    return p


def fam_dist(rng, pid):
    """several workers consuming one shared distributed adapter"""
    b = Builder(rng, 'dist', pid)
    kind = rng.choice(['dfifo', 'dprio'])
    k = rng.choice([2, 2, 3])
    cfg = {'wk': 'plain', 'conc': rng.choice([1, 1, 2]), 'queues': [kind], 'consumers': k, 'errs_reader': rng.random() < 0.5}
    pr = PRIOS if kind == 'dprio' else None
    if rng.random() < 0.4:
        cfg['preload'] = [{'job': b.job(0), 'prio': rng.choice(PRIOS) if pr else 0} for _ in range(rng.choice([1, 2, 3]))]
    for i in range(rng.choice([1, 2])):
        ops = []
        for _ in range(rng.choice([2, 3, 4])):
            op = b.add(rng.randrange(k), pr)      # through any consumer's handle of the shared queue
            ops.append(op)
        ops.append({'op': 'WUF'})
        b.client('c%d' % (i + 1), ops)
    if rng.random() < 0.4:
        b.client('late', late_producer(rng, b, rng.randrange(k), pr))
    return b.prog(cfg)


def fam_tune(rng, pid):
    """idle pool workers accumulate behind a long queue, then TunePool shrinks the pool while new jobs are dispatched"""
    b = Builder(rng, 'tune', pid)
    conc = rng.choice([2, 3, 3, 4])
    cfg = base_cfg(rng, conc=conc)
    cfg['ratio'] = rng.choice([100, 100, 50, 100])
    pr = PRIOS if cfg['queues'][0] == 'prio' else None
    ops = [b.add(0, pr) for _ in range(2 * conc + rng.choice([1, 2, 3]))]
    last = ops[-1]['job']
    ops += [{'op': 'Wait', 'job': last}, {'op': 'NumIdle'}]
    ops += [b.add(0, pr) for _ in range(rng.choice([1, 2, 3]))] + [{'op': 'WUF'}]
    b.client('c1', ops)
    # the controller shrinks the pool as soon as the first burst is through, while c1 submits again
    # ... then widens it again and submits a second burst (a pool node damaged by the shrink is used again here)
    stay_low = rng.random() < 0.4
    if stay_low:
        # ... or the pool stays small and idle workers expire: the remover has to trim down to the new limit's share
        cfg['expiry_us'] = rng.choice([200, 500])
    b.client('ctl', [{'op': 'Wait', 'job': last}, {'op': 'TunePool', 'n': rng.choice([1, 1, 2])}, {'op': 'NumIdle'}] + ([] if stay_low else [{'op': 'TunePool', 'n': conc}])
             + [b.add(0, pr) for _ in range(conc + rng.choice([1, 2]))] + [{'op': 'WUF'}, {'op': 'NumProcessing'}])
    if rng.random() < 0.4:
        b.client('c2', [b.add(0, pr) for _ in range(rng.choice([1, 2]))])
    return b.prog(cfg)


def fam_bind2(rng, pid):
    """two clients bind queues to a fresh worker at the same time, then saturate it"""
    b = Builder(rng, 'bind2', pid)
    cfg = {'wk': rng.choice(WKS), 'conc': rng.choice([1, 1, 2]), 'queues': [], 'nobind': True, 'errs_reader': rng.random() < 0.5}
    b.client('b1', [{'op': 'Bind', 'kind': 'fifo'}] + [b.add(0) for _ in range(rng.choice([2, 3, 4]))] + [{'op': 'WUF'}])
    b.client('b2', [{'op': 'Bind', 'kind': rng.choice(['fifo', 'prio'])}] + [b.add(1) for _ in range(rng.choice([2, 3, 4]))] + [{'op': 'WUF'}])
    return b.prog(cfg)


def fam_distbind(rng, pid):
    """a distributed queue is bound (as a client call, so under the gate) to an adapter that already holds entries,
    while another producer process writes to the adapter"""
    b = Builder(rng, 'distbind', pid)
    kind = rng.choice(['dfifo', 'dprio'])
    pr = PRIOS if kind == 'dprio' else None
    cfg = {'wk': 'plain', 'conc': rng.choice([1, 2]), 'queues': [], 'nobind': True, 'errs_reader': rng.random() < 0.5,
           'preload': [{'job': b.job(0), 'prio': rng.choice(PRIOS) if pr else 0} for _ in range(rng.choice([0, 1, 2, 3]))]}
    ops = [{'op': 'Bind', 'kind': kind}]
    if rng.random() < 0.6:
        ops += [b.add(0, pr) for _ in range(rng.choice([1, 2]))]
    b.client('c1', ops)
    if rng.random() < 0.7:
        # the other producer's writes are spread out (Yield = a scheduling point of its own), so that some of them fall after
        # the consumer's first look at the adapter and before its subscription
        ops2 = []
        for _ in range(rng.choice([1, 2, 3])):
            ops2 += [{'op': 'Yield'}] * rng.choice([0, 1, 2, 4])
            ops2.append({'op': 'RawAd', 'job': b.job(0), 'prio': rng.choice(PRIOS) if pr else 0})
        b.client('c2', ops2)
    return b.prog(cfg)


LIFE_OPS = ['Bind', 'Pause', 'PauseAndWait', 'Resume', 'Stop', 'WaitAndStop', 'Restart', 'TunePool', 'Add']


def life_prog(pid, seq, ctx, expiry, conc, rng, cancel_at=None):
    """one controller issuing the given sequence of lifecycle calls on an unbound worker, then a probe job"""
    b = Builder(rng, 'life', pid)
    ops, nq = [], 0
    for i, o in enumerate(seq):
        if cancel_at == i:
            ops.append({'op': 'CancelCtx'})
        if o == 'Bind':
            ops.append({'op': 'Bind', 'kind': rng.choice(['fifo', 'prio'])})
            nq += 1
        elif o == 'TunePool':
            ops.append({'op': 'TunePool', 'n': rng.choice([conc, conc + 1, 1, 2])})
        elif o == 'Add':
            if nq:
                ops.append(b.add(rng.randrange(nq)))
        else:
            ops.append({'op': o})
    if nq == 0:
        ops.append({'op': 'Bind', 'kind': 'fifo'})
        nq = 1
    ops.append(b.add(0))
    ops.append({'op': 'WStatus'})
    b.client('ctl', ops)
    cfg = {'wk': rng.choice(WKS), 'conc': conc, 'queues': [], 'nobind': True, 'ctx': ctx, 'expiry_us': expiry, 'errs_reader': rng.random() < 0.5}
    p = b.prog(cfg)
    p['outcome'] = {}
    return p


def fam_life(rng, pid):
    n = rng.choice([2, 3, 4, 5, 6, 8])
    seq = [rng.choice(LIFE_OPS) for _ in range(n)]
    ctx = rng.random() < 0.4
    p = life_prog(pid, seq, ctx, rng.choice([0, 0, 300]), rng.choice([1, 2]), rng, cancel_at=rng.randrange(n + 1) if ctx and rng.random() < 0.5 else None)
    if rng.random() < 0.3:
        p['clients'].append({'name': 'insp', 'ops': inspector(rng)})
    return p


def life_exhaustive(maxlen, seed, prefix):
    """every sequence of lifecycle calls up to maxlen, over the configurations"""
    import itertools
    rng = random.Random(seed)
    out = []
    for n in range(1, maxlen + 1):
        for seq in itertools.product(LIFE_OPS[:-1], repeat=n):
            ctx = rng.random() < 0.3
            out.append(life_prog('%s%d' % (prefix, len(out) + 1), list(seq), ctx, rng.choice([0, 0, 300]), rng.choice([1, 2]), random.Random(rng.randrange(1 << 30)),
                                 cancel_at=rng.randrange(n + 1) if ctx and rng.random() < 0.5 else None))
    return out


FAMILIES = {'flood': fam_flood, 'wq': fam_wq, 'cycles': fam_cycles, 'storm': fam_storm, 'stop2': fam_stop2, 'reject': fam_reject, 'multim': fam_multim, 'life': fam_life, 'distbind': fam_distbind, 'bind2': fam_bind2, 'tune': fam_tune, 'adapter': fam_adapter, 'dist': fam_dist, 'basic': fam_basic, 'barrier': fam_barrier, 'ctl': fam_ctl, 'cancel': fam_cancel, 'batch': fam_batch,
            'handle': fam_handle, 'pool': fam_pool, 'multi': fam_multi}


def generate(families, n, seed, prefix='e'):
    """n programs spread over the given families (list of names or (name, weight))."""
    rng = random.Random(seed)
    fams = []
    for f in families:
        if isinstance(f, tuple):
            fams += [f[0]] * f[1]
        else:
            fams.append(f)
    global _STRAT
    out, seen = [], {}
    off = rng.randrange(6)
    for i in range(n):
        fam = fams[i % len(fams)]
        _STRAT = seen.get(fam, off)
        seen[fam] = _STRAT + 1
        try:
            out.append(FAMILIES[fam](random.Random(rng.randrange(1 << 40)), '%s%d' % (prefix, i + 1)))
        finally:
            _STRAT = None
    return out


def free_variant(p, spin=2):
    """the same program run un-gated (M3)"""
    q = dict(p)
    q['id'] = p['id'] + 'f'
    q['sched'] = {'kind': 'free', 'seed': p['sched']['seed']}
    q['spin'] = spin
    return q
