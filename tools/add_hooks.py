#!/usr/bin/env python3
"""One-shot helper that inserted the verif hooks into /repo (kept for reference; add-only edits)."""
import re, sys, os
R = sys.argv[1] if len(sys.argv) > 1 else '/repo'
def rd(p): return open(os.path.join(R, p)).read()
def wr(p, s): open(os.path.join(R, p), 'w').write(s)
def _ls(anchor):
    # anchors are matched at the start of a line
    return anchor if anchor.startswith("\n") else "\n" + anchor
def ins_after(s, anchor, line, count=1, nth=None):
    a = _ls(anchor)
    assert s.count(a) == count, (anchor, s.count(a))
    return s.replace(a, a + line)
def ins_before(s, anchor, line, count=1):
    a = _ls(anchor)
    assert s.count(a) == count, (anchor, s.count(a))
    if anchor.startswith("\n"):
        return s.replace(a, "\n" + line.rstrip("\n") + a) if False else s.replace(a, "\n" + line + a[1:])
    return s.replace(a, "\n" + line + anchor)

# ---------------- Add bodies
n = 0
for p in ['queue.go', 'priority.go', 'persistent.go', 'persistent_priority.go', 'distributed.go', 'distributed_priority.go']:
    s = rd(p)
    out = []
    lines = s.split('\n')
    i = 0
    while i < len(lines):
        ln = lines[i]
        m = re.match(r'^(\t+)if ok := (q\.internalQueue|dq|dpq)\.Enqueue\((.*)\); !ok \{$', ln)
        if m:
            ind = m.group(1)
            out.append(ln)
            out.append(ind + '\tvhook("add.enq", j, false)')
            i += 1
            # copy until the closing brace at same indent
            while lines[i] != ind + '}':
                out.append(lines[i]); i += 1
            out.append(lines[i]); i += 1
            out.append(ind + 'vhook("add.enq", j, true)')
            n += 1
            continue
        out.append(ln); i += 1
    wr(p, '\n'.join(out))
print('add bodies', n)

# ---------------- worker.go
s = rd('worker.go')
s = ins_after(s, "func (w *worker[T, JobType]) releaseWaiters(processing uint32) {\n", '\tvhook("rel.enter", processing)\n')
s = ins_before(s, "\t\tw.mx.Lock()\n\t\tw.waiters.Broadcast()\n", '\t\tvhook("rel.bcast")\n')
s = ins_after(s, "\tw.mx.Lock()\n\tdefer w.mx.Unlock()\n\n\tfor condition() {\n", '\t\tvhook("wuf.wait")\n')
s = ins_after(s, "\t\tw.waiters.Wait()\n", '\t\tvhook("wuf.woken")\n')
s = ins_before(s, "\n\tfor condition() {\n", '\tvhook("wuf.locked")\n')
s = ins_after(s, "\tw.curProcessing.Add(1)\n\tdispatched := false\n", '\tvhook("disp.reserve")\n')
s = ins_after(s, "\t\t\tw.releaseWaiters(w.curProcessing.Add(^uint32(0)))\n", '\t\t\tvhook("disp.release")\n')
s = ins_before(s, "\tif !ok {\n\t\treturn ErrFailedToDequeue\n", '\tvhook("disp.deq", v, ok, ackId)\n')
s = ins_after(s, "\tif !j.startProcessing() {\n", '\t\tvhook("disp.proc", j, false)\n')
s = ins_after(s, "\tj.setAckId(ackId)\n", '\tvhook("disp.proc", j, true)\n')
s = ins_after(s, "\n\tif node := w.pool.PopBack(); node != nil {\n", '\t\tvhook("disp.node", node, false)\n')
s = ins_after(s, "\n\t\tnode.Value.Send(j)\n", '\t\tvhook("disp.sent", node)\n')
s = ins_after(s, "\tw.initPoolNode().Value.Send(j)\n", '\tvhook("disp.sent", nil)\n')
s = ins_after(s, "\tnode := w.pool.Cache.Get().(*linkedlist.Node[pool.Node[JobType]])\n", '\tvhook("node.init", node)\n')
s = ins_after(s, "\tgo node.Value.Serve(func(j JobType) {\n", '\t\tvhook("serve.recv", node, j)\n')
s = ins_after(s, "\t\tj.changeStatus(finished)\n", '\t\tvhook("serve.fin", j)\n')
s = ins_after(s, "\t\tif err := j.Close(); err != nil {\n\t\t\tw.sendError(err)\n\t\t}\n", '\t\tvhook("serve.closed", j)\n')
s = ins_after(s, "\t\tw.freePoolNode(node)\n", '\t\tvhook("serve.freed", node)\n')
s = ins_after(s, "\n\t\tw.releaseWaiters(w.curProcessing.Add(^uint32(0)))\n", '\t\tvhook("serve.rel")\n')
s = ins_before(s, "\t\tw.pool.PushNode(node)\n\t\treturn\n", '\t\tvhook("free.push", node)\n')
s = ins_before(s, "\tnode.Value.Stop()\n\tw.pool.Cache.Put(node)\n}", '\tvhook("free.stop", node)\n')
s = ins_after(s, "\tcase w.eventLoopSignal <- struct{}{}:\n", '\t\tvhook("notify.sent")\n')
s = ins_before(s, "\t\t// This default case means the eventLoopSignal buffer is full or\n", '\t\tvhook("notify.dropped")\n')
s = ins_after(s, "\t\t\tcase <-ticker.C:\n\t\t\t}\n", '\t\t\tvhook("reap.tick")\n')
s = ins_after(s, "\t\t\tnodes := w.pool.NodeSlice()\n", '\t\t\tvhook("reap.snap", len(nodes))\n')
s = ins_after(s, "\t\t\t\t\tif w.pool.Remove(node) {\n", '\t\t\t\t\t\tvhook("reap.removed", node)\n')
s = ins_after(s, "\t\t\t\t\t\tnode.Value.Stop()\n\t\t\t\t\t\tw.pool.Cache.Put(node)\n", '\t\t\t\t\t\tvhook("reap.stopped", node)\n')
s = ins_after(s, "\t\t<-c.Done()\n", '\t\tvhook("ctx.fired")\n')
s = ins_before(s, "\t\tfor range signal {\n", '\t\tvhook("loop.start")\n')
s = ins_after(s, "\t\tfor range signal {\n", '\t\t\tvhook("loop.wake")\n')
s = s.replace("w.queues.Len() > 0 {\n\t\t\t\tif err := w.dispatchNextJob", "w.queues.Len() > 0 {\n\t\t\t\tvhook(\"loop.pass\")\n\t\t\t\tif err := w.dispatchNextJob")
s = ins_after(s, "\t\t\tw.releaseWaiters(w.curProcessing.Load())\n", '\t\t\tvhook("loop.idle")\n')
s = ins_after(s, "\t\t\tvhook(\"loop.idle\")\n\t\t}\n", '\t\tvhook("loop.exit")\n')
s = ins_after(s, "\t\tif w.pool.Remove(node) {\n", '\t\t\tvhook("stopall.removed", node)\n')
s = ins_after(s, "\tif w.status.Load() != initiated {\n\t\treturn ErrRunningWorker\n\t}\n", '\tvhook("start.enter")\n')
s = ins_after(s, "\tw.pool.PushNode(w.initPoolNode())\n", '\tvhook("start.node")\n')
s = ins_after(s, "\tw.concurrency.Store(safeConcurrency)\n", '\tvhook("tune.stored", oldConcurrency, safeConcurrency)\n')
s = ins_after(s, "\t\tif node := w.pool.PopBack(); node != nil {\n", '\t\t\tvhook("tune.popped", node)\n')
s = ins_before(s, "\t\tw.status.Store(paused)\n", '\t\tvhook("pause.load")\n')
s = ins_after(s, "\tcase paused:\n\t\tw.WaitUntilFinished()\n\tdefault:\n\t\treturn ErrNotRunningWorker\n\t}\n", '\tvhook("stop.waited")\n')
s = ins_after(s, "\tw.stopTickers()\n\tw.closeChannels()\n\n\tw.stopAndRemoveAllWorkers()\n", '\tvhook("stop.nodes")\n')
s = ins_before(s, "\n\tw.stopAndRemoveAllWorkers()\n\tvhook(\"stop.nodes\")\n", '\tvhook("stop.chans")\n')
s = ins_after(s, "\tdefault:\n\t\treturn ErrNotRunningWorker\n\t}\n\n\t// start() below creates a new idle-worker remover\n", '\tvhook("restart.waited")\n')
s = s.replace("\tw.stopTickers()\n\tw.closeChannels()\n\n\tw.mx.Lock()\n", "\tw.stopTickers()\n\tw.closeChannels()\n\tvhook(\"restart.closed\")\n\n\tw.mx.Lock()\n")
s = ins_after(s, "\t\tw.ctx, w.cancel = context.WithCancel(w.Configs.ctx)\n\t}\n\tw.mx.Unlock()\n", '\tvhook("restart.newchans")\n')
s = ins_after(s, "\tw.status.Store(initiated)\n", '\tvhook("restart.reset")\n')
s = ins_before(s, "\tw.status.Store(running)\n\tw.notifyToPullNextJobs()\n", '\tvhook("resume.check")\n')
s = ins_after(s, "\tvhook(\"resume.check\")\n\tw.status.Store(running)\n", '\tvhook("resume.stored")\n')
wr('worker.go', s)

# ---------------- job.go / group_job.go
s = rd('job.go')
s = ins_after(s, "\tif err := j.markClosed(); err != nil {\n\t\treturn err\n\t}\n", '\tvhook("jclose.marked", j)\n')
wr('job.go', s)
s = rd('group_job.go')
s = ins_after(s, "\tif err := gj.markClosed(); err != nil {\n\t\treturn err\n\t}\n", '\tvhook("jclose.marked", gj)\n', count=3)
wr('group_job.go', s)
s = rd('queue.go')
s = ins_after(s, "\tprevValues := eq.q.Values()\n", '\tvhook("purge.values", len(prevValues))\n')
s = ins_after(s, "\teq.q.Purge()\n", '\tvhook("purge.purged")\n')
wr('queue.go', s)
s = rd('worker_binder.go')
s = ins_after(s, "\t\twb.worker.Metrics().incSubmitted()\n", '\t\tvhook("sub.notify")\n')
wr('worker_binder.go', s)

wr('verif_on.go', '''//go:build verif

package varmq

// VerifHook, when set (by a verification harness, before any worker is created), is called at
// the instrumented points of the library with the label of the point and a few arguments.
// It exists only under the "verif" build tag.
var VerifHook func(label string, args ...any)

func vhook(label string, args ...any) {
	if h := VerifHook; h != nil {
		h(label, args...)
	}
}
''')
wr('verif_off.go', '''//go:build !verif

package varmq

// vhook marks an instrumentation point for the "verif" build tag; without the tag it does nothing.
func vhook(string, ...any) {}
''')
