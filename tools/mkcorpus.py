#!/usr/bin/env python3
"""mkcorpus.py <keep dir>: turns replays kept by seedtest.py (SEED_KEEP) into corpus entries /verif/corpus/<seeded id>__<property>__<n>.json.
A corpus entry is a client program with a recorded schedule that exposed a seeded change once; every check of the property runs
its corpus entries (and their hold / window variants) besides the generated programs.  On code where the property holds they are
ordinary programs."""
import json, os, sys, glob
V = os.path.dirname(os.path.dirname(os.path.abspath(__file__)))
keep = sys.argv[1]
per = int(sys.argv[2]) if len(sys.argv) > 2 else 2
seen = {}
for f in sorted(glob.glob(os.path.join(keep, '*.json'))):
    sid, prop, _ = os.path.basename(f).split('__', 2)
    d = json.load(open(f))
    prog = d.get('program')
    if not isinstance(prog, dict) or 'clients' not in prog:
        continue            # data-structure or codec replays are not programs
    k = seen.get((sid, prop), 0)
    if k >= per:
        continue
    seen[(sid, prop)] = k + 1
    out = os.path.join(V, 'corpus', '%s__%s__%d.json' % (sid, prop, k + 1))
    json.dump({'properties': [prop], 'origin': sid, 'formula': d.get('formula'), 'program': prog}, open(out, 'w'), indent=1)
    print('kept', os.path.basename(out), d.get('formula'))
