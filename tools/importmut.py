#!/usr/bin/env python3
"""importmut.py <PROP> [...]: confirms a sub-agent's change from /tmp/mut/<PROP> in a fresh scratch worktree
(applies, builds, existing suite passes, demonstration fails with it and passes without it) and keeps it under seeded/A_<PROP>/."""
import json, os, shutil, subprocess, sys, tempfile
V = os.path.dirname(os.path.dirname(os.path.abspath(__file__)))
ENV = dict(os.environ, GOFLAGS='-mod=mod', GOPROXY='off')
def run(cmd, cwd=None, timeout=900):
    try:
        return subprocess.run(cmd, cwd=cwd, env=ENV, capture_output=True, text=True, timeout=timeout)
    except subprocess.TimeoutExpired as e:
        class R: returncode = 124; stdout = ''; stderr = 'timeout'
        return R()
def main():
    for prop in sys.argv[1:]:
        src = '/tmp/mut/' + prop
        diff = os.path.join(src, 'MUTANT.diff')
        if not os.path.exists(diff):
            print(prop, 'no MUTANT.diff'); continue
        tmp = tempfile.mkdtemp(prefix='imp-', dir='/var/tmp')
        wt = tmp + '/wt'
        try:
            run(['git', '-C', '/repo', 'worktree', 'add', '-q', '--detach', wt, 'HEAD'])
            demos = [f for f in os.listdir(src) if f.startswith('mutant_demo') and f.endswith('_test.go')]
            demodir = os.path.isdir(os.path.join(src, 'demo'))
            info = {'id': 'A_' + prop, 'breaks': [prop], 'origin': 'independent sub-agent given only the property text and a scratch worktree'}
            a = run(['git', '-C', wt, 'apply', diff])
            info['applies'] = a.returncode == 0
            if a.returncode != 0:
                print(prop, 'diff does not apply', a.stderr[:300]); continue
            b = run(['go', 'build', './...'], cwd=wt)
            info['builds'] = b.returncode == 0
            suite = [run(['go', 'test', '-vet=off', '-count=1', './...'], cwd=wt).returncode for _ in range(2)]
            info['suite_passes_with_change'] = all(x == 0 for x in suite)
            for f in demos:
                shutil.copy(os.path.join(src, f), wt)
            if demodir:
                shutil.copytree(os.path.join(src, 'demo'), os.path.join(wt, 'demo'), dirs_exist_ok=True)
            democmd = ['go', 'test', '-vet=off', '-count=1', '-run', 'Mutant', '.'] if demos else ['go', 'run', './demo']
            w = run(democmd, cwd=wt, timeout=600)
            info['demo_with_change'] = 'fails' if w.returncode != 0 else 'passes'
            run(['git', '-C', wt, 'apply', '-R', diff])
            wo = run(democmd, cwd=wt, timeout=900)
            info['demo_without_change'] = 'fails' if wo.returncode != 0 else 'passes'
            info['ran'] = ['git apply MUTANT.diff', 'go build ./...', 'go test -vet=off -count=1 ./... (x2)', ' '.join(democmd) + ' (with and without the change)']
            notes = open(os.path.join(src, 'NOTES.md')).read() if os.path.exists(os.path.join(src, 'NOTES.md')) else ''
            info['needs'] = next((l.strip() for l in notes.split('\n') if 'rigger' in l or 'needs' in l.lower()), '')[:400]
            ok = info['builds'] and info['suite_passes_with_change'] and info['demo_with_change'] == 'fails' and info['demo_without_change'] == 'passes'
            info['confirmed'] = ok
            print(prop, {k: v for k, v in info.items() if k not in ('ran', 'origin', 'needs')})
            if ok:
                d = os.path.join(V, 'seeded', 'A_' + prop)
                os.makedirs(d, exist_ok=True)
                shutil.copy(diff, os.path.join(d, 'patch.diff'))
                for f in demos:
                    shutil.copy(os.path.join(src, f), os.path.join(d, f + '.txt'))
                if demodir:
                    shutil.copytree(os.path.join(src, 'demo'), os.path.join(d, 'demo'), dirs_exist_ok=True)
                if notes:
                    open(os.path.join(d, 'NOTES.md'), 'w').write(notes)
                json.dump(info, open(os.path.join(d, 'meta.json'), 'w'), indent=1)
        finally:
            run(['git', '-C', '/repo', 'worktree', 'remove', '--force', wt])
            shutil.rmtree(tmp, ignore_errors=True)
if __name__ == '__main__':
    main()
