//go:build verif

package varmq

// Gate scheduler: serialises the goroutines of one episode at the vhook points of the library
// and at the harness' own points (client op boundaries, worker function entry/exit).
//
// Every registered goroutine is, at any moment, parked at a hook (waiting for release), or
// released (running, blocked inside the library/runtime, or gone). The scheduler releases
// one parked goroutine at a time and then "settles": it yields until no new arrivals are seen.
// Children run with GOMAXPROCS(1), so when the scheduler goroutine runs again after yielding,
// every other goroutine has parked, blocked or ended.

import (
	"encoding/json"
	"sort"
	"bytes"
	"fmt"
	"regexp"
	"runtime"
	"strconv"
	"strings"
	"sync"
	"sync/atomic"
	"time"
)

func goid() int64 {
	var b [64]byte
	n := runtime.Stack(b[:], false)
	f := bytes.Fields(b[:n])
	id, _ := strconv.ParseInt(string(f[1]), 10, 64)
	return id
}

type event map[string]any

type gproc struct {
	name    string
	kind    string // client | disp | pool | reap | ctx | wf
	gid     int64
	at      string // label where parked ("" if released)
	release chan struct{}
	steps   int
	done    bool // client finished its script
	rets    int    // client: calls that have returned
	lastRet string // client: the op of the last call that returned
}

// labels that are logged but never park (they execute while a library lock is held)
var logOnly = map[string]bool{
	"notify.sent": true, "notify.dropped": true,
}

// hook points that exist only for a schedule that asks for them by name (hold / window label): for every other schedule they
// neither park nor log, so that all recorded schedules and traces stay what they were before the hook existed
var onDemand = map[string]bool{
	"notify.done": true,
}

// hook points inside one step of the specification (second layer): schedules derived from the specification's behaviours do not
// stop there (schedSpec.Coarse)
var innerLabel = map[string]bool{
	"ad.sub": true, "job.sp.load": true, "job.mc.load": true, "jclose.checked": true, "disp.cas.load": true, "reap.expired": true,
	"add.pre": true, "bind.sub": true, "wgc.load": true, "wrap.wf": true, "q.len": true, "q.deq": true, "q.enq": true,
}

type gate struct {
	coarse   bool
	demand   string // the on-demand label this episode's schedule names ("" if none)
	quiet    bool   // free-running flood episodes: client calls and worker-function entries are not logged
	mu       sync.Mutex
	gated    bool // false: free-running (M3): hooks only log the observable events
	active   atomic.Bool
	procs    map[int64]*gproc
	byName   map[string]*gproc
	order    []*gproc
	log      []event
	seq      atomic.Int64
	arrivals atomic.Int64
	ndisp    int
	npool    int
	nreap    int
	nctx     int
	nodes    map[any]int
	proj     func() map[string]any // state projection, set by the episode
	jobKey   func(any) int         // job object -> key
	internal bool                  // log internal hook events (gated mode)
	sink     *json.Encoder         // every event is also written out at once: what survives a crash of the process
}

// logEvent appends to the log (g.mu held) and to the live sink
func (g *gate) logEvent(e event) {
	g.log = append(g.log, e)
	if g.sink != nil {
		g.sink.Encode(e)
	}
}

func newGate(gated bool) *gate {
	g := &gate{gated: gated, procs: map[int64]*gproc{}, byName: map[string]*gproc{}, nodes: map[any]int{}, internal: gated}
	g.active.Store(true)
	return g
}

func (g *gate) nodeOrd(n any) int {
	if n == nil {
		return 0
	}
	if o, ok := g.nodes[n]; ok {
		return o
	}
	o := len(g.nodes) + 1
	g.nodes[n] = o
	return o
}

// register the calling goroutine under the given name (clients, worker-function frames are the pool goroutine itself)
func (g *gate) register(name, kind string) *gproc {
	p := &gproc{name: name, kind: kind, gid: goid(), release: make(chan struct{}, 1)}
	g.mu.Lock()
	g.procs[p.gid] = p
	g.byName[name] = p
	g.order = append(g.order, p)
	g.mu.Unlock()
	return p
}

func (g *gate) emit(p string, ev string, kv ...any) {
	e := event{"p": p, "ev": ev}
	for i := 0; i+1 < len(kv); i += 2 {
		e[kv[i].(string)] = kv[i+1]
	}
	g.mu.Lock()
	e["seq"] = g.seq.Add(1)
	g.logEvent(e)
	g.mu.Unlock()
}

// hook is installed as VerifHook.
func (g *gate) hook(label string, args ...any) {
	if !g.active.Load() {
		return
	}
	if !g.gated {
		return // free-running: internal hooks are silent
	}
	if onDemand[label] && g.demand != label {
		return
	}
	id := goid()
	g.mu.Lock()
	p := g.procs[id]
	if p == nil {
		name, kind := "", ""
		switch {
		case label == "loop.start":
			g.ndisp++
			name, kind = fmt.Sprintf("disp%d", g.ndisp), "disp"
		case label == "serve.recv":
			g.npool++
			name, kind = fmt.Sprintf("pg%d", g.npool), "pool"
		case label == "reap.tick":
			g.nreap++
			name, kind = fmt.Sprintf("reap%d", g.nreap), "reap"
		case label == "ctx.fired":
			g.nctx++
			name, kind = fmt.Sprintf("ctx%d", g.nctx), "ctx"
		default:
			// a goroutine the episode does not know (e.g. left over): run free
			g.mu.Unlock()
			return
		}
		p = &gproc{name: name, kind: kind, gid: id, release: make(chan struct{}, 1)}
		g.procs[id] = p
		g.byName[name] = p
		g.order = append(g.order, p)
	}
	e := event{"p": p.name, "ev": label, "seq": g.seq.Add(1)}
	g.fillArgs(e, label, args)
	if g.proj != nil {
		e["st"] = g.proj()
	}
	g.logEvent(e)
	if logOnly[label] || (g.coarse && innerLabel[label]) {
		g.mu.Unlock()
		return
	}
	p.at = label
	g.arrivals.Add(1)
	g.mu.Unlock()
	<-p.release
}

func (g *gate) fillArgs(e event, label string, a []any) {
	jk := func(x any) int {
		if g.jobKey == nil || x == nil {
			return 0
		}
		return g.jobKey(x)
	}
	switch label {
	case "add.enq":
		e["job"] = jk(a[0])
		e["ok"] = a[1]
	case "rel.enter":
		e["n"] = a[0]
	case "disp.deq":
		e["job"] = jk(a[0])
		e["ok"] = a[1]
		e["ack"] = a[2]
	case "purge.deq":
		e["job"] = jk(a[0])
		e["ok"] = a[1]
	case "disp.proc":
		e["job"] = jk(a[0])
		e["ok"] = a[1]
	case "disp.node":
		e["node"] = g.nodeOrd(a[0])
	case "disp.sent":
		e["node"] = g.nodeOrd(a[0])
	case "node.init":
		e["node"] = g.nodeOrd(a[0])
	case "serve.recv":
		e["node"] = g.nodeOrd(a[0])
		e["job"] = jk(a[1])
	case "serve.fin", "serve.closed", "jclose.marked", "job.sp.load", "job.mc.load", "jclose.checked", "serve.wfdone", "add.pre", "wrap.wf", "wrap.ret":
		e["job"] = jk(a[0])
	case "serve.freed", "free.push", "free.stop", "reap.removed", "reap.stopped", "stopall.removed", "tune.popped", "reap.expired":
		e["node"] = g.nodeOrd(a[0])
	case "reap.snap", "purge.values":
		e["n"] = a[0]
	case "tune.stored":
		e["old"] = a[0]
		e["new"] = a[1]
	}
}

// point is a harness-level gate point (client op boundaries, worker function entry/exit).
// The calling goroutine must be registered, or be a pool goroutine known from serve.recv.
func (g *gate) point(label string, kv ...any) {
	if !g.active.Load() || g.quiet {
		return
	}
	id := goid()
	g.mu.Lock()
	p := g.procs[id]
	name := "?"
	if p != nil {
		name = p.name
	}
	e := event{"p": name, "ev": label, "seq": g.seq.Add(1)}
	for i := 0; i+1 < len(kv); i += 2 {
		e[kv[i].(string)] = kv[i+1]
	}
	if g.gated && g.proj != nil {
		e["st"] = g.proj()
	}
	g.logEvent(e)
	if !g.gated || p == nil || (g.coarse && innerLabel[label]) {
		g.mu.Unlock()
		return
	}
	p.at = label
	g.arrivals.Add(1)
	g.mu.Unlock()
	<-p.release
}

// logOnlyPoint records an observable event without parking (used for "ret": the call has returned).
func (g *gate) note(label string, kv ...any) {
	if !g.active.Load() || g.quiet {
		return
	}
	id := goid()
	g.mu.Lock()
	p := g.procs[id]
	name := "?"
	if p != nil {
		name = p.name
	}
	e := event{"p": name, "ev": label, "seq": g.seq.Add(1)}
	for i := 0; i+1 < len(kv); i += 2 {
		e[kv[i].(string)] = kv[i+1]
	}
	g.logEvent(e)
	g.mu.Unlock()
}

// ---- settle

func (g *gate) settleFast() {
	quiet := 0
	last := g.arrivals.Load()
	for i := 0; i < 10000 && quiet < 3; i++ {
		runtime.Gosched()
		if a := g.arrivals.Load(); a != last {
			last = a
			quiet = 0
		} else {
			quiet++
		}
	}
}

var ghdr = regexp.MustCompile(`(?m)^goroutine (\d+) \[([^\],]+)`)

type ginfo struct {
	state string
	stack string
}

func gstates() map[int64]ginfo {
	buf := make([]byte, 1<<20)
	n := runtime.Stack(buf, true)
	for n == len(buf) {
		buf = make([]byte, 2*len(buf))
		n = runtime.Stack(buf, true)
	}
	m := map[int64]ginfo{}
	for _, blk := range strings.Split(string(buf[:n]), "\n\n") {
		x := ghdr.FindStringSubmatch(blk)
		if x == nil {
			continue
		}
		id, _ := strconv.ParseInt(x[1], 10, 64)
		m[id] = ginfo{state: x[2], stack: blk}
	}
	return m
}

func blockedState(st string) bool {
	switch st {
	case "chan receive", "chan send", "select", "sync.Mutex.Lock", "sync.RWMutex.RLock", "sync.RWMutex.Lock",
		"sync.Cond.Wait", "sync.WaitGroup.Wait", "semacquire", "chan receive (nil chan)", "chan send (nil chan)", "select (no cases)":
		return true
	}
	return false
}

// libKind classifies a goroutine of the library by the function it runs.
func libKind(stack string) string {
	switch {
	case strings.Contains(stack, "goEventLoop.func"):
		return "loop"
	case strings.Contains(stack, "goRemoveIdleWorkers.func"):
		return "reaper"
	case strings.Contains(stack, "goListenToContext.func"):
		return "ctxl"
	case strings.Contains(stack, "internal/pool.(*Node") && strings.Contains(stack, "Serve"):
		return "pool"
	case strings.Contains(stack, "helpers.(*Response") && strings.Contains(stack, "Drain"):
		return "drain"
	case strings.Contains(stack, "goptics/varmq.") && !strings.Contains(stack, "goptics/varmq.Test") && !strings.Contains(stack, "goptics/varmq.(*episode)") && !strings.Contains(stack, "goptics/varmq.run"):
		return "lib?"
	}
	return ""
}

// census counts live library goroutines by kind (whole process: one episode at a time).
func census() map[string]int {
	c := map[string]int{}
	for _, gi := range gstates() {
		if k := libKind(gi.stack); k != "" {
			c[k]++
		}
	}
	return c
}

// parked returns the names of goroutines currently parked at a hook.
func (g *gate) parked() []*gproc {
	g.mu.Lock()
	defer g.mu.Unlock()
	var out []*gproc
	for _, p := range g.order {
		if p.at != "" {
			out = append(out, p)
		}
	}
	return out
}

// allProcs returns a snapshot (copies) of every registered goroutine's bookkeeping
func (g *gate) allProcs() []*gproc {
	g.mu.Lock()
	defer g.mu.Unlock()
	out := make([]*gproc, 0, len(g.order))
	for _, p := range g.order {
		q := *p
		out = append(out, &q)
	}
	return out
}

func (g *gate) releaseProc(p *gproc) {
	g.mu.Lock()
	if p.at == "" {
		g.mu.Unlock()
		return
	}
	p.at = ""
	p.steps++
	g.mu.Unlock()
	p.release <- struct{}{}
}

// allBlocked reports whether every registered, released goroutine that is still alive is in a
// blocking runtime state, and returns the names of the clients among them.
func (g *gate) allBlocked() (bool, []string) {
	gs := gstates()
	g.mu.Lock()
	defer g.mu.Unlock()
	ok := true
	var blockedClients []string
	// every goroutine of the library (registered or not: in free-running mode none is) must be blocked
	for _, gi := range gs {
		if libKind(gi.stack) != "" && !blockedState(gi.state) {
			ok = false
		}
	}
	for _, p := range g.order {
		if p.at != "" {
			continue
		}
		gi, alive := gs[p.gid]
		if !alive {
			continue
		}
		if p.kind == "client" && p.done {
			continue
		}
		if !blockedState(gi.state) {
			ok = false
		} else if p.kind == "client" {
			blockedClients = append(blockedClients, p.name)
		}
	}
	return ok, blockedClients
}

// noteAt records an event under a sequence number reserved earlier (adapter calls reserve it inside their
// critical section, so that the log order of adapter events is the order in which they took effect).
func (g *gate) noteAt(seq int64, label string, kv ...any) {
	if !g.active.Load() {
		return
	}
	id := goid()
	g.mu.Lock()
	p := g.procs[id]
	name := "?"
	if p != nil {
		name = p.name
	}
	e := event{"p": name, "ev": label, "seq": seq}
	for i := 0; i+1 < len(kv); i += 2 {
		e[kv[i].(string)] = kv[i+1]
	}
	g.logEvent(e)
	g.mu.Unlock()
}

// sortedLog returns the events ordered by their sequence numbers
func (g *gate) sortedLog() []event {
	g.mu.Lock()
	defer g.mu.Unlock()
	out := append([]event(nil), g.log...)
	sort.SliceStable(out, func(i, j int) bool { return out[i]["seq"].(int64) < out[j]["seq"].(int64) })
	return out
}

// shutdown releases everything and turns the gate off (goroutines run free from here on).
func (g *gate) shutdown() {
	g.active.Store(false)
	g.mu.Lock()
	ps := append([]*gproc(nil), g.order...)
	g.mu.Unlock()
	for _, p := range ps {
		g.mu.Lock()
		at := p.at
		p.at = ""
		g.mu.Unlock()
		if at != "" {
			p.release <- struct{}{}
		}
	}
	time.Sleep(time.Millisecond)
}
