//go:build verif

package queues

// Data-structure harness (overlaid into internal/queues): random operation sequences on the real
// Queue / PriorityQueue, logged with their results for validation against spec/QueueDS.tla.

import (
	"bufio"
	"encoding/json"
	"math/rand"
	"os"
	"sort"
	"strconv"
	"sync"
	"sync/atomic"
	"testing"
)

type dsLine map[string]any

func chunkProj(q *Queue[int]) [][]int {
	out := [][]int{}
	for c := q.readChunk; c != nil; c = c.Next {
		out = append(out, []int{c.NextReadIndex, c.NextWriteIndex, c.Cap()})
	}
	return out
}

func TestVerifDS(t *testing.T) {
	path := os.Getenv("VERIF_DS_OUT")
	if path == "" {
		t.Skip("VERIF_DS_OUT not set")
	}
	seed, _ := strconv.ParseInt(os.Getenv("VERIF_SEED"), 10, 64)
	n, _ := strconv.Atoi(os.Getenv("VERIF_DS_N"))
	mode := os.Getenv("VERIF_DS_MODE") // chunked | abstract
	f, err := os.Create(path)
	if err != nil {
		t.Fatal(err)
	}
	defer f.Close()
	w := bufio.NewWriterSize(f, 1<<20)
	defer w.Flush()
	enc := json.NewEncoder(w)
	rng := rand.New(rand.NewSource(seed))
	base := dsLine{"ds": "", "op": "", "v": 0, "ok": true, "prio": 0, "chunks": [][]int{}, "items": []int{}, "hi": 0, "lens": []int{}, "cur": 0, "cur2": 0, "res": 0, "ep": ""}
	emit := func(kv ...any) {
		d := dsLine{}
		for k, v := range base {
			d[k] = v
		}
		for i := 0; i+1 < len(kv); i += 2 {
			d[kv[i].(string)] = kv[i+1]
		}
		enc.Encode(d)
	}
	if mode == "chunked" {
		initialBufferCapacity, chunkMaxCapacity = 2, 4
		defer func() { initialBufferCapacity, chunkMaxCapacity = 1024, 100*1024 }()
		for ep := 0; ep < n; ep++ {
			id := "dsf" + strconv.Itoa(ep)
			emit("op", "reset", "ds", "fifo", "ep", id)
			q := NewQueue[int]()
			next := 1
			pe := 0.3 + 0.5*rng.Float64()
			for i := 0; i < 10+rng.Intn(40); i++ {
				r := rng.Float64()
				switch {
				case r < pe:
					ok := q.Enqueue(next)
					emit("ds", "fifo", "op", "enq", "v", next, "ok", ok, "chunks", chunkProj(q), "ep", id)
					next++
				case r < 0.93:
					v, ok := q.Dequeue()
					emit("ds", "fifo", "op", "deq", "v", v.(int), "ok", ok, "chunks", chunkProj(q), "ep", id)
				case r < 0.96:
					q.Purge()
					emit("ds", "fifo", "op", "purge", "ep", id)
				default:
					emit("ds", "fifo", "op", "len", "v", q.Len(), "ep", id)
				}
			}
			vals := []int{}
			for _, v := range q.Values() {
				vals = append(vals, v.(int))
			}
			emit("ds", "fifo", "op", "values", "items", vals, "ep", id)
		}
		return
	}
	// abstract mode: real capacities; lengths around the segment boundaries 1024, 2560, 4864
	for ep := 0; ep < n; ep++ {
		id := "dsa" + strconv.Itoa(ep)
		emit("op", "reset", "ds", "fifo", "ep", id)
		q := NewQueue[int]()
		next := 1
		// alternate fill / drain phases whose lengths sit on and around the segment sizes (1024, 1536, 2304)
		// and their cumulative boundaries (1024, 2560, 4864), so that reader and writer meet the hand-overs in every alignment
		sizes := []int{1023, 1024, 1025, 1535, 1536, 1537, 2559, 2560, 2561, 2304, 4864, 512, 1, 0, 300}
		nph := 3 + rng.Intn(5)
		for ph := 0; ph < nph; ph++ {
			k := sizes[rng.Intn(len(sizes))] + rng.Intn(3) - 1
			if ph%2 == 0 {
				for i := 0; i < k; i++ {
					emit("ds", "fifo", "op", "enq", "v", next, "ok", q.Enqueue(next), "ep", id)
					next++
				}
			} else {
				if rng.Intn(3) == 0 {
					k = q.Len() // drain exactly to the reader/writer meeting point
				}
				for i := 0; i < k; i++ {
					v, ok := q.Dequeue()
					emit("ds", "fifo", "op", "deq", "v", v.(int), "ok", ok, "ep", id)
					if !ok {
						break
					}
				}
			}
			if rng.Intn(12) == 0 {
				q.Purge()
				emit("ds", "fifo", "op", "purge", "ep", id)
			}
			emit("ds", "fifo", "op", "len", "v", q.Len(), "ep", id)
		}
		for {
			v, ok := q.Dequeue()
			emit("ds", "fifo", "op", "deq", "v", v.(int), "ok", ok, "ep", id)
			if !ok {
				break
			}
		}
	}
	// priority queue: arbitrary ints incl. extremes; the log carries the order-preserving rank of each priority
	for ep := 0; ep < n*6; ep++ {
		id := "dsp" + strconv.Itoa(ep)
		emit("op", "reset", "ds", "prio", "ep", id)
		pq := NewPriorityQueue[int]()
		pool := []int{-9223372036854775808, -5, -1, 0, 0, 1, 1, 2, 7, 9223372036854775807, rng.Intn(100) - 50, rng.Intn(5)}
		uniq := append([]int{}, pool...)
		sort.Ints(uniq)
		rank := func(p int) int { return sort.SearchInts(uniq, p) }
		next := 1
		for i := 0; i < 20+rng.Intn(60); i++ {
			r := rng.Float64()
			switch {
			case r < 0.55:
				p := pool[rng.Intn(len(pool))]
				emit("ds", "prio", "op", "enq", "v", next, "prio", rank(p), "ok", pq.Enqueue(next, p), "ep", id)
				next++
			case r < 0.93:
				v, ok := pq.Dequeue()
				emit("ds", "prio", "op", "deq", "v", v.(int), "ok", ok, "ep", id)
			case r < 0.96:
				pq.Purge()
				emit("ds", "prio", "op", "purge", "ep", id)
			default:
				emit("ds", "prio", "op", "len", "v", pq.Len(), "ep", id)
			}
		}
		for {
			v, ok := pq.Dequeue()
			emit("ds", "prio", "op", "deq", "v", v.(int), "ok", ok, "ep", id)
			if !ok {
				break
			}
		}
	}
	// Len() racing Enqueue/Dequeue/Purge: every value read lies in [0, number of enqueues started]
	{
		id := "dsr"
		emit("op", "reset", "ds", "fifo", "ep", id)
		q := NewQueue[int]()
		var started atomic.Int64
		var wg sync.WaitGroup
		stop := make(chan struct{})
		for g := 0; g < 3; g++ {
			wg.Add(1)
			go func(g int) {
				defer wg.Done()
				for i := 0; i < 20000; i++ {
					started.Add(1)
					q.Enqueue(i)
					q.Dequeue()
					if g == 0 && i%5000 == 4999 {
						q.Purge()
					}
				}
			}(g)
		}
		var mu sync.Mutex
		worst := map[int]int{}
		for r := 0; r < 2; r++ {
			wg.Add(1)
			go func() {
				defer wg.Done()
				for {
					select {
					case <-stop:
						return
					default:
					}
					hi := int(started.Load()) + 3
					v := q.Len()
					if v < 0 || v > hi {
						mu.Lock()
						worst[v] = hi
						mu.Unlock()
					}
				}
			}()
		}
		go func() {
			for started.Load() < 60000 {
				runtimeGosched()
			}
			close(stop)
		}()
		wg.Wait()
		emit("ds", "fifo", "op", "lenrace", "v", 0, "hi", 3, "ep", id)
		for v, hi := range worst {
			emit("ds", "fifo", "op", "lenrace", "v", v, "hi", hi, "ep", id)
		}
	}
}
