//go:build verif

package varmq

// Payload fidelity (C12): generated payloads of several Go types and arbitrary ids go through a
// persistent / distributed queue on a recording adapter; what the worker function receives is compared
// with the JSON round trip of what was submitted.  The comparison results are logged as "codec" events
// and judged by spec/Obs.tla (C12_Codec).

import (
	"bufio"
	"encoding/json"
	"fmt"
	"math"
	"math/rand"
	"os"
	"strconv"
	"sync"
	"testing"
	"time"
)

type codecStruct struct {
	A int64              `json:"a"`
	B string             `json:"b"`
	C []float64          `json:"c"`
	D *codecStruct       `json:"d,omitempty"`
	E map[string]any     `json:"e"`
	F bool               `json:"f"`
	G []byte             `json:"g"`
	H [2]int             `json:"h"`
	I interface{}        `json:"i"`
	J map[string][]int32 `json:"j"`
}

var codecStrings = []string{"", "a", "héllo wörld", "日本語", "quote\"back\\slash", "line\nbreak\ttab", "\u0000nul", "emoji 😀", "\xff\xfeinvalid utf8", "<html>&amp;</html>", " sep", "  spaces  "}

func genString(r *rand.Rand) string {
	if r.Intn(3) == 0 {
		b := make([]byte, r.Intn(12))
		for i := range b {
			b[i] = byte(r.Intn(256))
		}
		return string(b)
	}
	return codecStrings[r.Intn(len(codecStrings))]
}

func genAny(r *rand.Rand, depth int) any {
	switch k := r.Intn(8); {
	case k == 0:
		return nil
	case k == 1:
		return r.Intn(2) == 0
	case k == 2:
		return genFloat(r)
	case k == 3:
		return genString(r)
	case k == 4 && depth < 3:
		n := r.Intn(4)
		s := make([]any, n)
		for i := range s {
			s[i] = genAny(r, depth+1)
		}
		return s
	case k == 5 && depth < 3:
		m := map[string]any{}
		for i := r.Intn(4); i > 0; i-- {
			m[genString(r)] = genAny(r, depth+1)
		}
		return m
	case k == 6:
		return r.Int63() - r.Int63()
	}
	return float64(r.Intn(1000))
}

func genFloat(r *rand.Rand) float64 {
	switch r.Intn(10) {
	case 0:
		return math.Inf(1)
	case 1:
		return math.NaN()
	case 2:
		return math.MaxFloat64
	case 3:
		return math.SmallestNonzeroFloat64
	case 4:
		return math.Copysign(0, -1)
	case 5:
		return float64(r.Int63())
	}
	return r.NormFloat64() * math.Pow(10, float64(r.Intn(40)-20))
}

func genInt64(r *rand.Rand) int64 {
	switch r.Intn(6) {
	case 0:
		return math.MaxInt64
	case 1:
		return math.MinInt64
	case 2:
		return 0
	case 3:
		return 1<<53 + 1
	}
	return r.Int63() - r.Int63()
}

func genStruct(r *rand.Rand, depth int) codecStruct {
	s := codecStruct{A: genInt64(r), B: genString(r), F: r.Intn(2) == 0, H: [2]int{r.Intn(9), -r.Intn(9)}, I: genAny(r, 2)}
	for i := r.Intn(3); i > 0; i-- {
		s.C = append(s.C, float64(r.Intn(100))/8)
	}
	if depth < 2 && r.Intn(2) == 0 {
		d := genStruct(r, depth+1)
		s.D = &d
	}
	if r.Intn(2) == 0 {
		s.E = map[string]any{genString(r): genAny(r, 1)}
	}
	if r.Intn(2) == 0 {
		s.G = []byte(genString(r))
	}
	if r.Intn(2) == 0 {
		s.J = map[string][]int32{"k": {1, -2, math.MaxInt32}}
	}
	return s
}

type codecLog struct {
	mu  sync.Mutex
	enc *json.Encoder
	n   int
}

func (l *codecLog) emit(typ string, ok bool, what string) {
	l.mu.Lock()
	l.n++
	l.enc.Encode(map[string]any{"ev": "codec", "p": "codec", "seq": l.n, "type": typ, "ok": ok, "what": what})
	l.mu.Unlock()
}

// runCodec pushes n generated values of type T through the four adapter-backed bind methods.
func runCodec[T any](l *codecLog, typ string, r *rand.Rand, n int, gen func(*rand.Rand) T) {
	for bindKind := 0; bindKind < 4; bindKind++ {
		ep := &episode{prog: &progSpec{}, g: newGate(false)}
		ep.g.active.Store(false)
		ad := newRecAdapter(ep, 0, bindKind%2 == 1)
		type got struct {
			id   string
			data []byte
		}
		recv := make(chan got, n+8)
		w := NewWorker(func(j Job[T]) {
			b, _ := json.Marshal(j.Data())
			recv <- got{j.ID(), b}
		}, 2)
		var add func(v T, id string) bool
		switch bindKind {
		case 0:
			q := w.WithPersistentQueue(ad)
			add = func(v T, id string) bool { return q.Add(v, WithJobId(id)) }
		case 1:
			q := w.WithPersistentPriorityQueue(&recPrioAdapter{ad})
			add = func(v T, id string) bool { return q.Add(v, r.Intn(5), WithJobId(id)) }
		case 2:
			q := w.WithDistributedQueue(ad)
			add = func(v T, id string) bool { return q.Add(v, WithJobId(id)) }
		default:
			q := w.WithDistributedPriorityQueue(&recPrioAdapter{ad})
			add = func(v T, id string) bool { return q.Add(v, r.Intn(5), WithJobId(id)) }
		}
		want := map[string][]byte{}
		for i := 0; i < n; i++ {
			v := gen(r)
			id := fmt.Sprintf("%d-%s", i, genString(r))
			if ib, err := json.Marshal(id); err == nil {
				json.Unmarshal(ib, &id) // the id as JSON can carry it (invalid UTF-8 is not representable)
			}
			enc, err := json.Marshal(v)
			before := ad.Len() + len(ad.unacked)
			ok := add(v, id)
			if err != nil {
				// not encodable: rejected at submission, nothing reaches the adapter
				l.emit(typ, !ok, "unencodable value must be rejected")
				l.emit(typ, ad.nextSeq == before+len(ad.acked) || !ok, "rejected submission must not reach the adapter")
				continue
			}
			if !ok {
				l.emit(typ, false, "encodable value rejected: "+string(enc))
				continue
			}
			var x T
			if json.Unmarshal(enc, &x) != nil {
				continue
			}
			exp, _ := json.Marshal(x)
			want[id] = exp
		}
		deadline := time.After(5 * time.Second)
		seen := 0
		for seen < len(want) {
			select {
			case g := <-recv:
				exp, known := want[g.id]
				if !known {
					l.emit(typ, false, "job arrived with an id nobody submitted: "+strconv.Quote(g.id))
					continue
				}
				l.emit(typ, string(exp) == string(g.data), "payload differs from the JSON round trip for id "+strconv.Quote(g.id))
				delete(want, g.id)
			case <-deadline:
				l.emit(typ, false, fmt.Sprintf("%d submitted jobs never reached the worker function", len(want)))
				seen = len(want) + 1
			}
		}
		w.Stop()
	}
}

func TestVerifCodec(t *testing.T) {
	path := os.Getenv("VERIF_CODEC_OUT")
	if path == "" {
		t.Skip("VERIF_CODEC_OUT not set")
	}
	seed, _ := strconv.ParseInt(os.Getenv("VERIF_SEED"), 10, 64)
	n, _ := strconv.Atoi(os.Getenv("VERIF_CODEC_N"))
	f, err := os.Create(path)
	if err != nil {
		t.Fatal(err)
	}
	defer f.Close()
	w := bufio.NewWriterSize(f, 1<<20)
	defer w.Flush()
	l := &codecLog{enc: json.NewEncoder(w)}
	r := rand.New(rand.NewSource(seed))
	runCodec(l, "string", r, n, genString)
	runCodec(l, "int64", r, n, genInt64)
	runCodec(l, "float64", r, n, genFloat)
	runCodec(l, "bool", r, n/4+1, func(r *rand.Rand) bool { return r.Intn(2) == 0 })
	runCodec(l, "any", r, n, func(r *rand.Rand) any { return genAny(r, 0) })
	runCodec(l, "[]any", r, n, func(r *rand.Rand) []any { v, _ := genAny(r, 0).([]any); return v })
	runCodec(l, "map", r, n, func(r *rand.Rand) map[string]any { v, _ := genAny(r, 0).(map[string]any); return v })
	runCodec(l, "struct", r, n, func(r *rand.Rand) codecStruct { return genStruct(r, 0) })
	runCodec(l, "*struct", r, n, func(r *rand.Rand) *codecStruct {
		if r.Intn(4) == 0 {
			return nil
		}
		s := genStruct(r, 0)
		return &s
	})
	runCodec(l, "[]byte", r, n, func(r *rand.Rand) []byte { return []byte(genString(r)) })
	runCodec(l, "chan", r, 2, func(r *rand.Rand) chan int { return make(chan int) })
}
