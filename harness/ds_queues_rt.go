//go:build verif

package queues

import "runtime"

func runtimeGosched() { runtime.Gosched() }
