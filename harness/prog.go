//go:build verif

package varmq

// Client programs and their interpreter. A program is a configuration (worker kind, queues,
// concurrency, ...) plus a set of client processes, each a finite script of public API calls.
// Payloads are job keys (ints); the harness worker function derives its outcome from the key.

import (
	"io"
	"encoding/json"
	"github.com/goptics/varmq/internal/helpers"
	"github.com/goptics/varmq/internal/queues"
	"context"
	"errors"
	"fmt"
	"math/rand"
	"runtime"
	"sort"
	"sync"
	"sync/atomic"
	"time"
)

type itemSpec struct {
	Job  int `json:"job"`
	Prio int `json:"prio"`
}

type opSpec struct {
	Op    string     `json:"op"`
	Q     int        `json:"q,omitempty"`
	Job   int        `json:"job,omitempty"`
	Prio  int        `json:"prio,omitempty"`
	N     int        `json:"n,omitempty"`
	B     int        `json:"b,omitempty"`
	Items []itemSpec `json:"items,omitempty"`
	Kind  string     `json:"kind,omitempty"`
}

type clientSpec struct {
	Name string   `json:"name"`
	Ops  []opSpec `json:"ops"`
}

type cfgSpec struct {
	WK         string   `json:"wk"` // plain | err | result
	Conc       int      `json:"conc"`
	Queues     []string `json:"queues"` // fifo | prio | pfifo | pprio | dfifo | dprio
	ExpiryUs   int      `json:"expiry_us"`
	Ratio      int      `json:"ratio"`
	Ctx        bool     `json:"ctx"`
	Strategy   string   `json:"strategy"`
	ErrsReader bool     `json:"errs_reader"`
	IdGen      bool     `json:"idgen"`
	WsIds      bool     `json:"wsids"`
	Flood      string   `json:"flood,omitempty"` // outcome of every job without an entry in Outcome (flood episodes: err | panic)
	Quiet      bool     `json:"quiet,omitempty"` // free-running flood episodes: only the quiescence line is logged
	NoBind     bool     `json:"nobind"` // do not bind the queues up front (clients use Bind ops)
	Consumers  int      `json:"consumers,omitempty"` // >1: that many workers consume one shared distributed adapter
	Preload    []preSpec `json:"preload,omitempty"`  // entries already held by adapter 0 when the worker is bound
	CrashAt    int      `json:"crash_at,omitempty"`  // the process "dies" after that many gated steps
}

type preSpec struct {
	Job  int    `json:"job"`
	Prio int    `json:"prio"`
	Raw  string `json:"raw,omitempty"` // bad entry kind instead of a job
}

type schedSpec struct {
	Kind    string   `json:"kind"` // random | pct | replay | free
	Seed    int64    `json:"seed"`
	Choices []string `json:"choices,omitempty"`
	Depth   int      `json:"depth,omitempty"`
	Favor   string   `json:"favor,omitempty"` // process name prefix that is starved/favoured
	Label   string   `json:"label,omitempty"` // hold: a process that arrives at this label is kept there ...
	Nth     int      `json:"nth,omitempty"`   // ... from its nth arrival on (0: always), until nothing else can run
	Coarse  bool     `json:"coarse,omitempty"` // the hook points inside one step of the specification do not park (replays of TLC behaviours)
	Who     string   `json:"who,omitempty"`   // hold: this process runs ahead of the others until it is held
	Until   string   `json:"until,omitempty"` // hold: the held process is let go (and runs next) as soon as another process arrives at this label
	After   []string `json:"after,omitempty"` // window: the held process is let go (and then runs alone for Burst steps) as soon as a client call of one of these ops has returned (empty: any op)
	Burst   int      `json:"burst,omitempty"`
}

type progSpec struct {
	ID      string            `json:"id"`
	Family  string            `json:"family"`
	Cfg     cfgSpec           `json:"cfg"`
	Clients []clientSpec      `json:"clients"`
	Outcome map[string]string `json:"outcome"` // job key -> ok | err | panic
	Sched   schedSpec         `json:"sched"`
	Faults  map[string][]int  `json:"faults,omitempty"` // adapter call -> indices refused
	MaxStep int               `json:"max_step,omitempty"`
	Spin    int               `json:"spin,omitempty"` // free mode: yields inside the worker function
}

// ---- handles, uniform over the three worker kinds

type hJob struct {
	base   EnqueuedJob
	errJ   EnqueuedErrJob
	resJ   EnqueuedResultJob[int]
	closer func() error
}

type hBatch struct {
	pending func() int
	wait    func()
	errs    <-chan error
	results <-chan Result[int]
	drain   func()
}

type hQueue struct {
	kind    string
	add     func(key, prio int, id string) (*hJob, bool)
	addAll  func(items []Item[int]) *hBatch
	purge   func()
	close   func() error
	pending func() int
	values  func() []any
	raw     func(kind string, prio int)
}

type episode struct {
	prog    *progSpec
	g       *gate
	ws      []Worker // all consumers (ws[0] == w)
	shared  *recAdapter
	w       Worker
	ctxCanc context.CancelFunc
	queues  []*hQueue
	adapt   []*recAdapter
	extraQ  []*hQueue
	bind    func(kind string) *hQueue
	mu      sync.Mutex
	jobs    map[int]*hJob
	nohandle map[int]bool
	hasBatch map[int]bool
	hcond   *sync.Cond
	jobObjs map[any]int
	batches map[int]*hBatch
	idSeq   atomic.Int64
	proj    func() map[string]any
	rng     *rand.Rand
	errsN   atomic.Int64
	inWF    atomic.Int64
	peak    atomic.Int64
}

// wsIDs: the episode's submissions choose IDs with leading and trailing white space (cfg.wsids): an ID is an opaque string and must
// reach the worker function, the results and the adapter entries unchanged (one episode at a time per process)
var wsIDs bool

func jobID(key int) string {
	if wsIDs {
		return fmt.Sprintf(" id-%d\t", key)
	}
	return fmt.Sprintf("id-%d", key)
}

func (ep *episode) outcome(key int) string {
	if o, ok := ep.prog.Outcome[fmt.Sprint(key)]; ok {
		return o
	}
	if ep.prog.Cfg.Flood != "" {
		return ep.prog.Cfg.Flood
	}
	return "ok"
}

func resultFor(key int) int { return key*10 + 7 }
func errFor(key int) error  { return fmt.Errorf("e%d", key) }

// the harness worker function body, shared by the three kinds
func (ep *episode) wfBody(j Job[int]) (int, error) { return ep.wfBodyC(j, 0) }

func (ep *episode) wfBodyC(j Job[int], cons int) (int, error) {
	key := j.Data()
	st := ""
	if sp, ok := j.(StatusProvider); ok {
		st = sp.Status()
	}
	n := ep.inWF.Add(1)
	for {
		p := ep.peak.Load()
		if n <= p || ep.peak.CompareAndSwap(p, n) {
			break
		}
	}
	ep.g.point("wf.enter", "job", key, "id", j.ID(), "status", st, "inwf", n, "cons", cons)
	for i := 0; i < ep.prog.Spin; i++ {
		runtime.Gosched()
	}
	if key%4 == 1 {
		// a worker function that tries to cancel its own job: Close on a job that is Processing must refuse and change nothing
		// (in particular it must not acknowledge the entry before the function has returned)
		if c, ok := j.(io.Closer); ok {
			c.Close()
		}
	}
	if sp, ok := j.(StatusProvider); ok {
		st = sp.Status()
	}
	out := ep.outcome(key)
	ep.inWF.Add(-1)
	// logged before returning: a handle that returns earlier than this line really returned early
	ep.g.point("wf.exit", "job", key, "out", out, "status", st)
	switch out {
	case "panic":
		// the panic value is a string, an error or a struct, by job key: every kind must become the job's error
		switch key % 3 {
		case 0:
			panic(fmt.Errorf("p%d", key))
		case 1:
			panic(struct{ S string }{fmt.Sprintf("p%d", key)})
		}
		panic(fmt.Sprintf("p%d", key))
	case "err":
		return 0, errFor(key)
	}
	return resultFor(key), nil
}

func (ep *episode) batch(b int) *hBatch {
	ep.mu.Lock()
	defer ep.mu.Unlock()
	for ep.batches[b] == nil && ep.hasBatch[b] {
		ep.hcond.Wait()
	}
	return ep.batches[b]
}

func (ep *episode) remember(key int, h *hJob) {
	ep.mu.Lock()
	if h == nil {
		ep.nohandle[key] = true
	} else {
		ep.jobs[key] = h
	}
	ep.hcond.Broadcast()
	ep.mu.Unlock()
}

// job returns the handle of job key, waiting until its Add has returned (nil if it was rejected
// or if the job is submitted through a queue that gives no handle).
func (ep *episode) job(key int) *hJob {
	ep.mu.Lock()
	defer ep.mu.Unlock()
	for ep.jobs[key] == nil && !ep.nohandle[key] {
		ep.hcond.Wait()
	}
	return ep.jobs[key]
}

func workerConfigs(c cfgSpec, ep *episode) []any {
	cfg := []any{WithConcurrency(c.Conc)}
	if c.ExpiryUs > 0 {
		cfg = append(cfg, WithIdleWorkerExpiryDuration(time.Duration(c.ExpiryUs)*time.Microsecond))
	}
	if c.Ratio > 0 {
		cfg = append(cfg, WithMinIdleWorkerRatio(uint8(c.Ratio)))
	}
	switch c.Strategy {
	case "max":
		cfg = append(cfg, WithStrategy(MaxLen))
	case "min":
		cfg = append(cfg, WithStrategy(MinLen))
	}
	if c.Ctx {
		ctx, cancel := context.WithCancel(context.Background())
		ep.ctxCanc = cancel
		cfg = append(cfg, WithContext(ctx))
	}
	if c.IdGen {
		cfg = append(cfg, WithJobIdGenerator(func() string { return fmt.Sprintf("gen-%d", ep.idSeq.Add(1)) }))
	}
	return cfg
}

func jobCfg(id string, key int) []JobConfigFunc {
	if id == "" {
		// no ID chosen (the worker has a generator): by job key no option at all, or the no-op option WithJobId("")
		if key%2 == 0 {
			return []JobConfigFunc{WithJobId("")}
		}
		return nil
	}
	return []JobConfigFunc{WithJobId(id)}
}

// gate-instrumented queues (queue kinds "wfifo" / "wprio", bound with WithQueue / WithPriorityQueue): the library's own in-memory
// queue behind a wrapper whose Len, Dequeue and Enqueue are scheduling points of the gate.  Every place where the library reads
// a queue length or takes a job out (the event loop's condition, releaseWaiters, freePoolNode, WaitUntilFinished, the strategies,
// Purge, NumPending) thereby becomes a point at which the other goroutines can be interleaved.
type gateQueue struct {
	IQueue
	ep *episode
}

func (q *gateQueue) Len() int             { q.ep.g.point("q.len"); return q.IQueue.Len() }
func (q *gateQueue) Dequeue() (any, bool) { q.ep.g.point("q.deq"); return q.IQueue.Dequeue() }
func (q *gateQueue) Enqueue(item any) bool {
	q.ep.g.point("q.enq")
	return q.IQueue.Enqueue(item)
}

type gatePrioQueue struct {
	IPriorityQueue
	ep *episode
}

func (q *gatePrioQueue) Len() int             { q.ep.g.point("q.len"); return q.IPriorityQueue.Len() }
func (q *gatePrioQueue) Dequeue() (any, bool) { q.ep.g.point("q.deq"); return q.IPriorityQueue.Dequeue() }
func (q *gatePrioQueue) Enqueue(item any, priority int) bool {
	q.ep.g.point("q.enq")
	return q.IPriorityQueue.Enqueue(item, priority)
}

func (ep *episode) setup() {
	c := ep.prog.Cfg
	cfg := workerConfigs(c, ep)
	switch c.WK {
	case "err":
		b := NewErrWorker(func(j Job[int]) error { _, err := ep.wfBody(j); return err }, cfg...)
		wb := b.(*errWorkerBinder[int])
		ep.w = b
		ep.proj = projOf(ep, wb.worker)
		ep.g.mu.Lock()
		ep.g.proj = ep.proj
		ep.g.mu.Unlock()
		ep.bind = func(kind string) *hQueue {
			switch kind {
			case "fifo", "wfifo":
				q := b.BindQueue()
				if kind == "wfifo" {
					q = b.WithQueue(&gateQueue{queues.NewQueue[iErrorJob[int]](), ep})
				}
				iq := q.(*errorQueue[int]).internalQueue
				return &hQueue{kind: kind, purge: q.Purge, close: q.Close, pending: q.NumPending, values: iq.Values,
					add: func(key, prio int, id string) (*hJob, bool) {
						j, ok := q.Add(key, jobCfg(id, key)...)
						if !ok {
							return nil, false
						}
						return &hJob{base: j, errJ: j}, true
					},
					addAll: func(items []Item[int]) *hBatch {
						g := q.AddAll(items)
						return &hBatch{pending: g.NumPending, wait: g.Wait, errs: g.Errs(), drain: g.Drain}
					}}
			case "prio", "wprio":
				q := b.BindPriorityQueue()
				if kind == "wprio" {
					q = b.WithPriorityQueue(&gatePrioQueue{queues.NewPriorityQueue[iErrorJob[int]](), ep})
				}
				iq := q.(*errorPriorityQueue[int]).internalQueue
				return &hQueue{kind: kind, purge: q.Purge, close: q.Close, pending: q.NumPending, values: iq.Values,
					add: func(key, prio int, id string) (*hJob, bool) {
						j, ok := q.Add(key, prio, jobCfg(id, key)...)
						if !ok {
							return nil, false
						}
						return &hJob{base: j, errJ: j}, true
					},
					addAll: func(items []Item[int]) *hBatch {
						g := q.AddAll(items)
						return &hBatch{pending: g.NumPending, wait: g.Wait, errs: g.Errs(), drain: g.Drain}
					}}
			}
			panic("bad queue kind for err worker: " + kind)
		}
	case "result":
		b := NewResultWorker(func(j Job[int]) (int, error) { return ep.wfBody(j) }, cfg...)
		wb := b.(*resultWorkerBinder[int, int])
		ep.w = b
		ep.proj = projOf(ep, wb.worker)
		ep.g.mu.Lock()
		ep.g.proj = ep.proj
		ep.g.mu.Unlock()
		ep.bind = func(kind string) *hQueue {
			switch kind {
			case "fifo", "wfifo":
				q := b.BindQueue()
				if kind == "wfifo" {
					q = b.WithQueue(&gateQueue{queues.NewQueue[iResultJob[int, int]](), ep})
				}
				iq := q.(*resultQueue[int, int]).internalQueue
				return &hQueue{kind: kind, purge: q.Purge, close: q.Close, pending: q.NumPending, values: iq.Values,
					add: func(key, prio int, id string) (*hJob, bool) {
						j, ok := q.Add(key, jobCfg(id, key)...)
						if !ok {
							return nil, false
						}
						return &hJob{base: j, resJ: j}, true
					},
					addAll: func(items []Item[int]) *hBatch {
						g := q.AddAll(items)
						return &hBatch{pending: g.NumPending, wait: g.Wait, results: g.Results(), drain: g.Drain}
					}}
			case "prio", "wprio":
				q := b.BindPriorityQueue()
				if kind == "wprio" {
					q = b.WithPriorityQueue(&gatePrioQueue{queues.NewPriorityQueue[iResultJob[int, int]](), ep})
				}
				iq := q.(*resultPriorityQueue[int, int]).internalQueue
				return &hQueue{kind: kind, purge: q.Purge, close: q.Close, pending: q.NumPending, values: iq.Values,
					add: func(key, prio int, id string) (*hJob, bool) {
						j, ok := q.Add(key, prio, jobCfg(id, key)...)
						if !ok {
							return nil, false
						}
						return &hJob{base: j, resJ: j}, true
					},
					addAll: func(items []Item[int]) *hBatch {
						g := q.AddAll(items)
						return &hBatch{pending: g.NumPending, wait: g.Wait, results: g.Results(), drain: g.Drain}
					}}
			}
			panic("bad queue kind for result worker: " + kind)
		}
	default:
		b := NewWorker(func(j Job[int]) { ep.wfBody(j) }, cfg...)
		wb := b.(*workerBinder[int])
		ep.w = b
		ep.ws = []Worker{b}
		binders := []IWorkerBinder[int]{b}
		for i := 1; i < c.Consumers; i++ {
			ci := i
			bi := NewWorker(func(j Job[int]) { ep.wfBodyC(j, ci) }, workerConfigs(c, &episode{})...)
			ep.ws = append(ep.ws, bi)
			binders = append(binders, bi)
		}
		ep.proj = projOf(ep, wb.worker)
		ep.g.mu.Lock()
		ep.g.proj = ep.proj
		ep.g.mu.Unlock()
		ep.bind = func(kind string) *hQueue {
			switch kind {
			case "fifo", "wfifo":
				q := b.BindQueue()
				if kind == "wfifo" {
					q = b.WithQueue(&gateQueue{queues.NewQueue[iJob[int]](), ep})
				}
				iq := q.(*queue[int]).internalQueue
				return &hQueue{kind: kind, purge: q.Purge, close: q.Close, pending: q.NumPending, values: iq.Values,
					add: func(key, prio int, id string) (*hJob, bool) {
						j, ok := q.Add(key, jobCfg(id, key)...)
						if !ok {
							return nil, false
						}
						return &hJob{base: j}, true
					},
					addAll: func(items []Item[int]) *hBatch {
						g := q.AddAll(items)
						return &hBatch{pending: g.NumPending, wait: g.Wait}
					}}
			case "prio", "wprio":
				q := b.BindPriorityQueue()
				if kind == "wprio" {
					q = b.WithPriorityQueue(&gatePrioQueue{queues.NewPriorityQueue[iJob[int]](), ep})
				}
				iq := q.(*priorityQueue[int]).internalQueue
				return &hQueue{kind: kind, purge: q.Purge, close: q.Close, pending: q.NumPending, values: iq.Values,
					add: func(key, prio int, id string) (*hJob, bool) {
						j, ok := q.Add(key, prio, jobCfg(id, key)...)
						if !ok {
							return nil, false
						}
						return &hJob{base: j}, true
					},
					addAll: func(items []Item[int]) *hBatch {
						g := q.AddAll(items)
						return &hBatch{pending: g.NumPending, wait: g.Wait}
					}}
			case "pfifo", "dfifo":
				ad := newRecAdapter(ep, len(ep.adapt), false)
				ep.preload(ad)
				ep.addAdapter(ad)
				hq := &hQueue{kind: kind, values: ad.Values}
				if kind == "pfifo" {
					q := b.WithPersistentQueue(ad)
					hq.purge, hq.close, hq.pending = q.Purge, q.Close, q.NumPending
					hq.add = func(key, prio int, id string) (*hJob, bool) { return nil, q.Add(key, jobCfg(id, key)...) }
				} else {
					q := b.WithDistributedQueue(ad)
					hq.purge, hq.close, hq.pending = q.Purge, q.Close, q.NumPending
					hq.add = func(key, prio int, id string) (*hJob, bool) { return nil, q.Add(key, jobCfg(id, key)...) }
					for _, bi := range binders[1:] {
						qi := bi.WithDistributedQueue(ad)
						ep.extraQ = append(ep.extraQ, &hQueue{kind: kind, values: ad.Values, purge: qi.Purge, close: qi.Close, pending: qi.NumPending,
							add: func(key, prio int, id string) (*hJob, bool) { return nil, qi.Add(key, jobCfg(id, key)...) }})
					}
				}
				hq.raw = func(kind string, prio int) { ad.enqueueRaw(kind, prio) }
				return hq
			case "pprio", "dprio":
				ad := newRecAdapter(ep, len(ep.adapt), true)
				ep.preload(ad)
				ep.addAdapter(ad)
				pad := &recPrioAdapter{ad}
				hq := &hQueue{kind: kind, values: ad.Values}
				if kind == "pprio" {
					q := b.WithPersistentPriorityQueue(pad)
					hq.purge, hq.close, hq.pending = q.Purge, q.Close, q.NumPending
					hq.add = func(key, prio int, id string) (*hJob, bool) { return nil, q.Add(key, prio, jobCfg(id, key)...) }
				} else {
					q := b.WithDistributedPriorityQueue(pad)
					hq.purge, hq.close, hq.pending = q.Purge, q.Close, q.NumPending
					hq.add = func(key, prio int, id string) (*hJob, bool) { return nil, q.Add(key, prio, jobCfg(id, key)...) }
					for _, bi := range binders[1:] {
						qi := bi.WithDistributedPriorityQueue(pad)
						ep.extraQ = append(ep.extraQ, &hQueue{kind: kind, values: ad.Values, purge: qi.Purge, close: qi.Close, pending: qi.NumPending,
							add: func(key, prio int, id string) (*hJob, bool) { return nil, qi.Add(key, prio, jobCfg(id, key)...) }})
					}
				}
				hq.raw = func(kind string, prio int) { ad.enqueueRaw(kind, prio) }
				return hq
			}
			panic("bad queue kind: " + kind)
		}
	}
	if !c.NoBind {
		for _, k := range c.Queues {
			ep.queues = append(ep.queues, ep.bind(k))
		}
		// the other consumers' handles of the shared queue come after the bound queues
		ep.queues = append(ep.queues, ep.extraQ...)
	}
	if ep.ws == nil {
		ep.ws = []Worker{ep.w}
	}
}

func (ep *episode) addAdapter(ad *recAdapter) {
	ep.mu.Lock()
	ep.adapt = append(ep.adapt, ad)
	ep.hcond.Broadcast()
	ep.mu.Unlock()
}

// preload puts the configured entries into the adapter before anything is bound to it
func (ep *episode) preload(ad *recAdapter) {
	if ad.idx != 0 {
		return
	}
	for _, e := range ep.prog.Cfg.Preload {
		if e.Raw != "" {
			ad.enqueueRaw(e.Raw, e.Prio)
			continue
		}
		b, _ := newJob(e.Job, jobConfigs{Id: jobID(e.Job)}).Json()
		ad.enqueue(b, e.Prio)
	}
}

func errName(err error) string {
	switch {
	case err == nil:
		return "nil"
	case errors.Is(err, ErrJobProcessing):
		return "ErrJobProcessing"
	case errors.Is(err, ErrJobAlreadyClosed):
		return "ErrJobAlreadyClosed"
	case errors.Is(err, ErrRunningWorker):
		return "ErrRunningWorker"
	case errors.Is(err, ErrNotRunningWorker):
		return "ErrNotRunningWorker"
	case errors.Is(err, ErrSameConcurrency):
		return "ErrSameConcurrency"
	}
	return "err:" + err.Error()
}

func (ep *episode) wstatus() map[string]any {
	return map[string]any{"s": ep.w.Status(), "run": ep.w.IsRunning(), "pau": ep.w.IsPaused(), "stp": ep.w.IsStopped()}
}

// exec performs one client op and returns the fields of its "ret" event.
func (ep *episode) exec(o opSpec) []any {
	q := func() *hQueue {
		ep.mu.Lock()
		defer ep.mu.Unlock()
		if o.Q < len(ep.queues) {
			return ep.queues[o.Q]
		}
		return nil
	}
	switch o.Op {
	case "Add":
		hq := q()
		if hq == nil {
			return []any{"res", "noqueue"}
		}
		id := jobID(o.Job)
		if ep.prog.Cfg.IdGen {
			id = ""
		}
		h, ok := hq.add(o.Job, o.Prio, id)
		if !ok {
			h = nil
		}
		ep.remember(o.Job, h)
		return []any{"ok", ok}
	case "AddAll":
		hq := q()
		items := make([]Item[int], len(o.Items))
		for i, it := range o.Items {
			items[i] = Item[int]{ID: jobID(it.Job), Data: it.Job, Priority: it.Prio}
			if ep.prog.Cfg.IdGen && ep.prog.Cfg.WK == "plain" {
				// (batches whose results are read back are attributed by ID; a plain worker's batch leaves the IDs to the generator)
				items[i].ID = ""
			}

		}
		b := hq.addAll(items)
		ep.mu.Lock()
		ep.batches[o.B] = b
		ep.hcond.Broadcast()
		ep.mu.Unlock()
		return []any{"ok", true}
	case "Close":
		h := ep.job(o.Job)
		if h == nil {
			return []any{"res", "nohandle"}
		}
		return []any{"res", errName(h.base.Close())}
	case "Wait":
		h := ep.job(o.Job)
		if h == nil {
			return []any{"res", "nohandle"}
		}
		h.base.Wait()
		return []any{"res", "nil", "status", h.base.Status()}
	case "Status":
		h := ep.job(o.Job)
		if h == nil {
			return []any{"res", "nohandle"}
		}
		return []any{"res", h.base.Status()}
	case "Result":
		h := ep.job(o.Job)
		if h == nil {
			return []any{"res", "nohandle"}
		}
		switch {
		case h.resJ != nil:
			v, err := h.resJ.Result()
			return []any{"res", "val", "v", v, "err", errStr(err)}
		case h.errJ != nil:
			return []any{"res", "val", "v", 0, "err", errStr(h.errJ.Err())}
		}
		h.base.Wait()
		return []any{"res", "val", "v", 0, "err", ""}
	case "Drain":
		h := ep.job(o.Job)
		if h == nil {
			return []any{"res", "nohandle"}
		}
		switch {
		case h.resJ != nil:
			h.resJ.Drain()
		case h.errJ != nil:
			h.errJ.Drain()
		}
		return []any{"res", "nil"}
	case "BatchWait":
		b := ep.batch(o.B)
		if b == nil {
			return []any{"res", "nohandle"}
		}
		b.wait()
		return []any{"res", "nil", "pending", b.pending()}
	case "BatchPending":
		b := ep.batch(o.B)
		if b == nil {
			return []any{"res", "nohandle"}
		}
		return []any{"res", "val", "v", b.pending()}
	case "BatchRead":
		b := ep.batch(o.B)
		if b == nil {
			return []any{"res", "nohandle"}
		}
		var items []any
		switch {
		case b.results != nil:
			for r := range b.results {
				items = append(items, map[string]any{"id": r.JobId, "v": r.Data, "err": errStr(r.Err)})
			}
		case b.errs != nil:
			for e := range b.errs {
				items = append(items, map[string]any{"err": errStr(e)})
			}
		default:
			b.wait()
		}
		return []any{"res", "closed", "items", items}
	case "RawAd":
		// another producer process writes a valid entry straight to the (shared) adapter, as soon as it exists
		ep.mu.Lock()
		for len(ep.adapt) == 0 {
			ep.hcond.Wait()
		}
		ad := ep.adapt[0]
		ep.mu.Unlock()
		b, _ := newJob(o.Job, jobConfigs{Id: jobID(o.Job)}).Json()
		return []any{"ok", ad.enqueue(b, o.Prio)}
	case "Raw":
		hq := q()
		if hq == nil || hq.raw == nil {
			return []any{"res", "noqueue"}
		}
		hq.raw(o.Kind, o.Prio)
		return []any{"res", "nil"}
	case "Purge":
		q().purge()
		return []any{"res", "nil"}
	case "QClose":
		return []any{"res", errName(q().close())}
	case "QPending":
		return []any{"res", "val", "v", q().pending()}
	case "NumPending":
		return []any{"res", "val", "v", ep.w.NumPending()}
	case "NumProcessing":
		return []any{"res", "val", "v", ep.w.NumProcessing()}
	case "NumIdle":
		return []any{"res", "val", "v", ep.w.NumIdleWorkers()}
	case "NumConc":
		return []any{"res", "val", "v", ep.w.NumConcurrency()}
	case "Metrics":
		m := ep.w.Metrics()
		return []any{"res", "val", "sub", m.Submitted(), "comp", m.Completed(), "succ", m.Successful(), "fail", m.Failed()}
	case "WStatus":
		return []any{"res", "val", "ws", ep.wstatus()}
	case "Introspect":
		// the remaining read-only calls of the Worker interface (their values are not compared: race detector, crash freedom)
		// (Errs first: the calls after it synchronise on the worker's mutex and would hide an unsynchronised read from the detector)
		_ = ep.w.Errs()
		_ = ep.w.Context()
		return []any{"res", "val", "ws", ep.wstatus(), "conc", ep.w.NumConcurrency()}
	case "Info":
		h := ep.job(o.Job)
		if h == nil {
			return []any{"res", "nohandle"}
		}
		return []any{"res", "val", "id", h.base.ID(), "closed", h.base.IsClosed(), "status", h.base.Status()}
	case "Pause":
		return []any{"res", errName(ep.w.Pause()), "ws", ep.wstatus()}
	case "PauseAndWait":
		return []any{"res", errName(ep.w.PauseAndWait()), "ws", ep.wstatus()}
	case "Resume":
		return []any{"res", errName(ep.w.Resume()), "ws", ep.wstatus()}
	case "Stop":
		return []any{"res", errName(ep.w.Stop()), "ws", ep.wstatus()}
	case "WaitAndStop":
		return []any{"res", errName(ep.w.WaitAndStop()), "ws", ep.wstatus()}
	case "Restart":
		return []any{"res", errName(ep.w.Restart()), "ws", ep.wstatus()}
	case "TunePool":
		return []any{"res", errName(ep.w.TunePool(o.N)), "ws", ep.wstatus(), "conc", ep.w.NumConcurrency()}
	case "WUF":
		ep.w.WaitUntilFinished()
		return []any{"res", "nil"}
	case "Flood":
		// n submissions in a row (keys job .. job+n-1), no handles kept: many jobs finishing (and failing) at the same time
		hq := q()
		if hq == nil {
			return []any{"res", "noqueue"}
		}
		for k := o.Job; k < o.Job+o.N; k++ {
			hq.add(k, 0, jobID(k))
		}
		return []any{"res", "nil"}
	case "Bind":
		hq := ep.bind(o.Kind)
		ep.mu.Lock()
		ep.queues = append(ep.queues, hq)
		ep.mu.Unlock()
		return []any{"res", "nil", "ws", ep.wstatus()}
	case "CancelCtx":
		if ep.ctxCanc != nil {
			ep.ctxCanc()
		}
		return []any{"res", "nil"}
	case "Yield":
		runtime.Gosched()
		return []any{"res", "nil"}
	}
	return []any{"res", "unknown-op"}
}

func errStr(err error) string {
	if err == nil {
		return ""
	}
	return err.Error()
}

func (ep *episode) runClient(c clientSpec, wg *sync.WaitGroup) {
	defer wg.Done()
	p := ep.g.register(c.Name, "client")
	ep.g.point("c.start")
	for _, o := range c.Ops {
		ep.g.point("call", "op", o.Op, "q", o.Q, "job", o.Job, "prio", o.Prio, "n", o.N, "b", o.B, "items", o.Items, "kind", o.Kind)
		ret := ep.exec(o)
		ep.g.mu.Lock()
		p.rets++
		p.lastRet = o.Op
		ep.g.mu.Unlock()
		ep.g.note("ret", append([]any{"op", o.Op, "q", o.Q, "job", o.Job, "b", o.B}, ret...)...)
	}
	ep.g.mu.Lock()
	p.done = true
	ep.g.mu.Unlock()
}

// ---- scheduling strategies

type chooser struct {
	kind   string
	rng    *rand.Rand
	replay []string
	pos    int
	prio   map[string]int
	change map[int]bool
	step   int
	favor  string
	who    string
	until  string
	label  string
	nth    int
	seen   int
	held   map[string]bool
	diverged int
	// window
	after   map[string]bool
	burst   int
	phase   int // 0: waiting for the arrival, 1: holding, 2: burst, 3: over
	wname   string
	rets0   map[string]int
	left    int
}

func newChooser(s schedSpec, maxStep int) *chooser {
	c := &chooser{kind: s.Kind, rng: rand.New(rand.NewSource(s.Seed)), replay: s.Choices, prio: map[string]int{}, change: map[int]bool{}, favor: s.Favor, who: s.Who, until: s.Until, label: s.Label, nth: s.Nth, held: map[string]bool{}, after: map[string]bool{}, burst: s.Burst, rets0: map[string]int{}}
	for _, a := range s.After {
		c.after[a] = true
	}
	if c.burst == 0 {
		c.burst = 8
	}
	if s.Kind == "pct" {
		d := s.Depth
		if d == 0 {
			d = 2
		}
		for i := 0; i < d; i++ {
			c.change[c.rng.Intn(300)] = true
		}
	}
	return c
}

func (c *chooser) pick(ps []*gproc, all []*gproc) *gproc {
	c.step++
	if c.pos < len(c.replay) {
		// replaying a recorded schedule: every recorded choice is consumed, also the forced ones
		want := c.replay[c.pos]
		c.pos++
		for _, p := range ps {
			if p.name == want {
				return p
			}
		}
		c.diverged++
		// the wanted process is not parked: fall through to the base strategy
	}
	if len(ps) == 1 {
		delete(c.held, ps[0].name)
		if c.kind == "window" && c.phase == 1 && ps[0].name == c.wname {
			c.phase = 3
		}
		return ps[0]
	}
	if c.kind == "window" {
		// a process arriving at the label (for the nth time) is held back while the others run; as soon as a client call (of one
		// of the given ops) has returned meanwhile, the held process runs alone for a few steps: "X has returned, then a
		// goroutine that had already passed its check acts"
		switch c.phase {
		case 0:
			for _, p := range ps {
				if p.at == c.label && p.kind != "client" {
					c.seen++
					if c.seen > c.nth {
						c.phase, c.wname = 1, p.name
						for _, q := range all {
							c.rets0[q.name] = q.rets
						}
						break
					}
				}
			}
		case 1:
			for _, q := range all {
				if q.kind == "client" && q.name != c.wname && q.rets > c.rets0[q.name] && (len(c.after) == 0 || c.after[q.lastRet]) {
					c.phase, c.left = 2, c.burst
					break
				}
			}
		}
		if c.phase == 2 {
			for _, p := range ps {
				if p.name == c.wname {
					c.left--
					if c.left <= 0 {
						c.phase = 3
					}
					return p
				}
			}
			c.phase = 3 // the held process is blocked or gone
		}
		if c.phase == 1 {
			var rest []*gproc
			for _, p := range ps {
				if p.name != c.wname {
					rest = append(rest, p)
				}
			}
			if len(rest) > 0 {
				return rest[c.rng.Intn(len(rest))]
			}
			c.phase = 3
		}
		return ps[c.rng.Intn(len(ps))]
	}
	if c.kind == "hold" && c.until != "" && len(c.held) > 0 {
		// the held process goes on as soon as somebody else has reached the `until` label; nothing is held after that
		for _, q := range ps {
			if q.at == c.until && !c.held[q.name] {
				for _, p := range ps {
					if c.held[p.name] {
						c.kind = "random"
						delete(c.held, p.name)
						return p
					}
				}
			}
		}
	}
	if c.kind == "hold" {
		// a process parked at the label stays there while anything else can be released
		var rest []*gproc
		for _, p := range ps {
			if p.at == c.label && (c.who == "" || p.name == c.who) { // (with `who`, only that process is held at the label)
				if !c.held[p.name] {
					c.seen++
					if c.seen >= c.nth {
						c.held[p.name] = true
					}
				}
				if c.held[p.name] {
					continue
				}
			}
			rest = append(rest, p)
		}
		if len(rest) > 0 {
			// optionally the process expected at the label runs ahead of everybody until it is held there ...
			if c.who != "" && len(c.held) == 0 && c.rng.Intn(8) != 0 {
				for _, p := range rest {
					if p.name == c.who {
						return p
					}
				}
			}
			// ... and one class of processes runs ahead of the others while it is held
			if c.favor != "" && (len(c.held) > 0 || c.who == "") && c.rng.Intn(8) != 0 {
				for _, p := range rest {
					if len(p.name) >= len(c.favor) && p.name[:len(c.favor)] == c.favor {
						return p
					}
				}
			}
			return rest[c.rng.Intn(len(rest))]
		}
		for _, p := range ps {
			delete(c.held, p.name)
		}
		return ps[c.rng.Intn(len(ps))]
	}
	switch c.kind {
	case "pct":
		best := ps[0]
		for _, p := range ps {
			if _, ok := c.prio[p.name]; !ok {
				c.prio[p.name] = 1000 + c.rng.Intn(1000)
			}
			if c.prio[p.name] > c.prio[best.name] {
				best = p
			}
		}
		if c.change[c.step] {
			c.prio[best.name] = c.rng.Intn(1000) // demote
		}
		return best
	case "starve":
		// never pick a process whose name has the favoured prefix unless nothing else is parked
		var rest []*gproc
		for _, p := range ps {
			if !(len(p.name) >= len(c.favor) && p.name[:len(c.favor)] == c.favor) {
				rest = append(rest, p)
			}
		}
		if len(rest) > 0 && c.rng.Intn(20) != 0 {
			return rest[c.rng.Intn(len(rest))]
		}
	case "rush":
		// prefer the favoured process whenever it is parked
		for _, p := range ps {
			if len(p.name) >= len(c.favor) && p.name[:len(c.favor)] == c.favor && c.rng.Intn(10) != 0 {
				return p
			}
		}
	}
	return ps[c.rng.Intn(len(ps))]
}

// ---- running one episode

type epResult struct {
	Events   []event
	Result   string // ok | budget | stuck
	Steps    int
	Choices  []string
	Diverged int // replayed choices whose process was not parked
}

func (ep *episode) quiescentEvent(blocked []string, label string, settled bool) {
	st := map[string]any{}
	if ep.proj != nil {
		st = ep.proj()
	}
	qp := []int{}
	ep.mu.Lock()
	for _, q := range ep.queues {
		qp = append(qp, q.pending())
	}
	ep.mu.Unlock()
	m := ep.w.Metrics()
	sort.Strings(blocked)
	jst := map[string]string{}
	ep.mu.Lock()
	for k, h := range ep.jobs {
		jst[fmt.Sprint(k)] = h.base.Status()
	}
	ep.mu.Unlock()
	csub := []uint64{}
	proc := 0
	for _, w := range ep.ws {
		csub = append(csub, w.Metrics().Submitted())
		proc += w.NumProcessing()
	}
	ep.g.emit("harness", label, "csub", csub,
		"blocked", blocked, "ws", ep.wstatus(), "pending", ep.w.NumPending(), "qpending", qp,
		"processing", proc, "idle", ep.w.NumIdleWorkers(), "conc", ep.w.NumConcurrency(),
		"sub", m.Submitted(), "comp", m.Completed(), "succ", m.Successful(), "fail", m.Failed(),
		"census", census(), "settled", settled, "jst", jst, "peak", ep.peak.Load(), "errs", ep.errsN.Load(), "st", st)
}

var liveSink *json.Encoder // set by the test entry point

func runEpisode(prog *progSpec) (res epResult) {
	gated := prog.Sched.Kind != "free" && prog.Sched.Kind != "race"
	g := newGate(gated)
	g.coarse = prog.Sched.Coarse
	wsIDs = prog.Cfg.WsIds
	g.quiet = prog.Cfg.Quiet && !gated
	if onDemand[prog.Sched.Label] {
		g.demand = prog.Sched.Label
	}
	g.sink = liveSink
	if prog.Sched.Kind == "race" {
		// race-detector runs: no logging at all, the harness must not add any synchronisation of its own
		g.active.Store(false)
	}
	ep := &episode{prog: prog, g: g, jobs: map[int]*hJob{}, nohandle: map[int]bool{}, jobObjs: map[any]int{}, batches: map[int]*hBatch{}}
	ep.hcond = sync.NewCond(&ep.mu)
	// jobs nobody in this program submits have no handle
	submitted := map[int]bool{}
	ep.hasBatch = map[int]bool{}
	for _, c := range prog.Clients {
		for _, o := range c.Ops {
			if o.Op == "Add" {
				submitted[o.Job] = true
			}
			if o.Op == "AddAll" {
				ep.hasBatch[o.B] = true
			}
		}
	}
	for _, c := range prog.Clients {
		for _, o := range c.Ops {
			if o.Job != 0 && !submitted[o.Job] {
				ep.nohandle[o.Job] = true
			}
		}
	}
	g.jobKey = func(x any) int {
		switch v := x.(type) {
		case interface{ Data() int }:
			return v.Data()
		case []byte:
			return keyOfBytes(v)
		}
		return 0
	}
	if prog.Sched.Kind != "race" {
		VerifHook = g.hook
		helpers.VerifHook = g.hook
		defer func() { VerifHook = nil; helpers.VerifHook = nil }()
	}
	ep.setup()
	if prog.Cfg.ErrsReader {
		ch := ep.w.Errs()
		go func() {
			for range ch {
				ep.errsN.Add(1)
			}
		}()
	}
	var wg sync.WaitGroup
	for _, c := range prog.Clients {
		wg.Add(1)
		go ep.runClient(c, &wg)
	}
	maxStep := prog.MaxStep
	if maxStep == 0 {
		maxStep = 4000
	}
	res.Result = "ok"
	if !gated {
		done := make(chan struct{})
		go func() { wg.Wait(); close(done) }()
		select {
		case <-done:
		case <-time.After(3 * time.Second):
		}
		// wait for the library to come to rest: identical blocked dumps
		blocked := waitRest(g, 3*time.Second)
		if prog.Sched.Kind != "race" {
			ep.quiescentEvent(blocked, "quiescent", false)
		}
	} else {
		ch := newChooser(prog.Sched, maxStep)
		deadline := time.Now().Add(20 * time.Second)
		restTicks, restProj := 0, ""
		for {
			g.settleFast()
			ps := g.parked()
			onlyReap := len(ps) > 0
			for _, p := range ps {
				if p.kind != "reap" || p.at != "reap.tick" {
					onlyReap = false
				}
			}
			if len(ps) == 0 || onlyReap {
				// nothing to release (but an idle-worker remover between two passes): at rest, or somebody is in a timer / still running
				ok, blocked := g.allBlocked()
				if ok && onlyReap {
					// at rest once three passes of the remover have changed nothing
					cur := fmt.Sprint(ep.proj())
					if cur == restProj {
						restTicks++
					} else {
						restTicks, restProj = 0, cur
					}
					if restTicks >= 3 {
						ep.quiescentEvent(blocked, "quiescent", true)
						break
					}
					if len(ps) > 1 {
						// several removers wait at their tick (one may be a superseded one that a hold schedule kept back: it
						// leaves as soon as it runs): every one of them makes its pass before the next look
						for _, p := range ps {
							res.Steps++
							g.releaseProc(p)
							g.settleFast()
						}
						continue
					}
				} else if ok {
					time.Sleep(time.Duration(200+2*prog.Cfg.ExpiryUs) * time.Microsecond)
					g.settleFast()
					if len(g.parked()) == 0 {
						ok2, blocked2 := g.allBlocked()
						if ok2 && fmt.Sprint(blocked) == fmt.Sprint(blocked2) {
							ep.quiescentEvent(blocked2, "quiescent", false)
							break
						}
					}
					continue
				} else {
					restTicks = 0
					if time.Now().After(deadline) {
						res.Result = "stuck"
						break
					}
					time.Sleep(50 * time.Microsecond)
					continue
				}
			} else {
				restTicks = 0
			}
			if prog.Cfg.CrashAt > 0 && res.Steps >= prog.Cfg.CrashAt {
				res.Result = "cut"
				break
			}
			if res.Steps >= maxStep || time.Now().After(deadline) {
				res.Result = "budget"
				break
			}
			p := ch.pick(ps, g.allProcs())
			res.Diverged = ch.diverged
			res.Choices = append(res.Choices, p.name)
			res.Steps++
			g.releaseProc(p)
		}
	}
	g.shutdown()
	res.Events = g.sortedLog()
	ep.teardown()
	return res
}

// waitRest waits until all library and client goroutines are blocked in two consecutive dumps.
func waitRest(g *gate, max time.Duration) []string {
	deadline := time.Now().Add(max)
	prev, same := "", 0
	for time.Now().Before(deadline) {
		ok, blocked := g.allBlocked()
		cur := fmt.Sprint(ok, blocked, runtime.NumGoroutine())
		if ok && cur == prev {
			same++
			if same >= 3 {
				return blocked
			}
		} else {
			same = 0
		}
		prev = cur
		time.Sleep(2 * time.Millisecond)
	}
	_, blocked := g.allBlocked()
	return blocked
}

func (ep *episode) teardown() {
	done := make(chan struct{})
	go func() {
		defer close(done)
		defer func() { recover() }()
		if ep.ctxCanc != nil {
			ep.ctxCanc()
		}
		for _, w := range ep.ws {
			if w.IsStopped() {
				continue
			}
			w.Resume()
			w.Stop()
		}
	}()
	select {
	case <-done:
	case <-time.After(500 * time.Millisecond):
	}
}
