//go:build verif

package helpers

// Manager harness (overlaid into internal/helpers): every length vector over 0..3 for 1..4 registered items
// and every cursor position; results are logged by index for validation against spec/QueueDS.tla.

import (
	"bufio"
	"encoding/json"
	"os"
	"testing"
)

type vItem struct{ n int }

func (v *vItem) Len() int { return v.n }

func TestVerifManager(t *testing.T) {
	path := os.Getenv("VERIF_DS_OUT")
	if path == "" {
		t.Skip("VERIF_DS_OUT not set")
	}
	f, err := os.Create(path)
	if err != nil {
		t.Fatal(err)
	}
	defer f.Close()
	w := bufio.NewWriterSize(f, 1<<20)
	defer w.Flush()
	enc := json.NewEncoder(w)
	emit := func(op string, lens []int, cur, res, cur2 int) {
		enc.Encode(map[string]any{"ds": "mgr", "op": op, "v": 0, "ok": true, "prio": 0, "chunks": [][]int{}, "items": []int{}, "hi": 0,
			"lens": lens, "cur": cur, "cur2": cur2, "res": res, "ep": "mgr"})
	}
	for n := 1; n <= 4; n++ {
		total := 1
		for i := 0; i < n; i++ {
			total *= 4
		}
		for code := 0; code < total; code++ {
			lens := make([]int, n)
			c := code
			for i := 0; i < n; i++ {
				lens[i] = c % 4
				c /= 4
			}
			mk := func() (*Manager[*vItem], []*vItem) {
				m := CreateManager[*vItem]()
				items := make([]*vItem, n)
				for i := range items {
					items[i] = &vItem{n: lens[i]}
					m.Register(items[i])
				}
				return &m, items
			}
			idx := func(items []*vItem, it *vItem, err error) int {
				if err != nil {
					return -1
				}
				for i, x := range items {
					if x == it {
						return i
					}
				}
				return -2
			}
			for cur := 0; cur < n; cur++ {
				m, items := mk()
				m.roundRobinIndex = cur
				it, err := m.GetRoundRobinItem()
				emit("rr", lens, cur, idx(items, it, err), m.roundRobinIndex)
			}
			m, items := mk()
			it, err := m.GetMaxLenItem()
			emit("max", lens, 0, idx(items, it, err), 0)
			it, err = m.GetMinLenItem()
			emit("min", lens, 0, idx(items, it, err), 0)
			emit("len", lens, 0, m.Len(), 0)
		}
	}
}
