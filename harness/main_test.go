//go:build verif

package varmq

// Entry point of the verification harness (overlaid into /repo as zz_verif_main_test.go).
//   VERIF_PROGS   ndjson file, one program per line
//   VERIF_OUT     ndjson trace file to write (reset line, events, end line per episode)
//   VERIF_JOURNAL file that receives the id of each episode before it starts (crash attribution)
//   VERIF_GOMAXPROCS  1 for gated episodes

import (
	"bufio"
	"encoding/json"
	"fmt"
	"os"
	"runtime"
	"strconv"
	"testing"
	"time"
)

func TestVerifEpisodes(t *testing.T) {
	progs := os.Getenv("VERIF_PROGS")
	if progs == "" {
		t.Skip("VERIF_PROGS not set")
	}
	if n, err := strconv.Atoi(os.Getenv("VERIF_GOMAXPROCS")); err == nil && n > 0 {
		runtime.GOMAXPROCS(n)
	}
	in, err := os.Open(progs)
	if err != nil {
		t.Fatal(err)
	}
	defer in.Close()
	out, err := os.Create(os.Getenv("VERIF_OUT"))
	if err != nil {
		t.Fatal(err)
	}
	defer out.Close()
	w := bufio.NewWriterSize(out, 1<<20)
	defer w.Flush()
	journal, _ := os.OpenFile(os.Getenv("VERIF_JOURNAL"), os.O_CREATE|os.O_WRONLY|os.O_APPEND, 0o644)
	sc := bufio.NewScanner(in)
	sc.Buffer(make([]byte, 1<<20), 1<<26)
	enc := json.NewEncoder(w)
	base := runtime.NumGoroutine()
	for sc.Scan() {
		var p progSpec
		if err := json.Unmarshal(sc.Bytes(), &p); err != nil {
			t.Fatalf("bad program: %v", err)
		}
		if journal != nil {
			fmt.Fprintf(journal, "start %s\n", p.ID)
		}
		// live copy of the running episode's events: the parent reads it if this process dies
		if live, err := os.Create(os.Getenv("VERIF_OUT") + ".live"); err == nil {
			liveSink = json.NewEncoder(live)
			defer live.Close()
		}
		t0 := time.Now()
		res := runEpisode(&p)
		enc.Encode(map[string]any{"ev": "reset", "ep": p.ID, "family": p.Family, "cfg": p.Cfg, "clients": p.Clients, "outcome": p.Outcome, "sched": p.Sched.Kind, "seed": p.Sched.Seed, "faults": p.Faults})
		for _, e := range res.Events {
			enc.Encode(e)
		}
		enc.Encode(map[string]any{"ev": "end", "ep": p.ID, "result": res.Result, "steps": res.Steps, "choices": res.Choices, "diverged": res.Diverged, "us": time.Since(t0).Microseconds()})
		w.Flush()
		if journal != nil {
			fmt.Fprintf(journal, "done %s\n", p.ID)
		}
		// leftovers of a hung episode must not leak into the next one: stop this child, the parent restarts the rest
		clean := false
		for i := 0; i < 100; i++ {
			// no goroutine of the library may survive into the next episode (its census is process-wide)
			if runtime.NumGoroutine() <= base+1 && len(census()) == 0 {
				clean = true
				break
			}
			time.Sleep(300 * time.Microsecond)
		}
		if !clean {
			if journal != nil {
				fmt.Fprintf(journal, "dirty %s\n", p.ID)
			}
			w.Flush()
			return
		}
	}
}
