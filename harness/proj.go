//go:build verif

package varmq

// State projection of a worker for gated traces (exact: nothing else runs while a hook logs),
// and the recording adapter used for persistent / distributed queues.

import (
	"encoding/json"
	"fmt"
	"sort"
	"sync"
)

func wsName(s uint32) string {
	switch s {
	case initiated:
		return "initiated"
	case running:
		return "running"
	case paused:
		return "paused"
	case stopped:
		return "stopped"
	}
	return "unknown"
}

// projOf returns the projection function of worker w. It must not take w.mx (a parked waiter may hold it).
func projOf[J iJob[int]](ep *episode, w *worker[int, J]) func() map[string]any {
	return func() map[string]any {
		sig := -1
		if ch := w.eventLoopSignal; ch != nil {
			sig = len(ch)
		}
		qs := [][]int{}
		for _, q := range ep.queues {
			keys := []int{}
			if q.values != nil {
				for _, v := range q.values() {
					switch x := v.(type) {
					case interface{ Data() int }:
						keys = append(keys, x.Data())
					case []byte:
						keys = append(keys, keyOfBytes(x))
					}
				}
			}
			qs = append(qs, keys)
		}
		idle := []int{}
		for _, n := range w.pool.NodeSlice() {
			idle = append(idle, ep.g.nodeOrd(n))
		}
		m := w.metrics
		return map[string]any{
			"ws": wsName(w.status.Load()), "cur": int(w.curProcessing.Load()), "conc": int(w.concurrency.Load()),
			"sig": sig, "q": qs, "idle": idle,
			"sub": m.Submitted(), "comp": m.Completed(), "succ": m.Successful(), "fail": m.Failed(),
		}
	}
}

func keyOfBytes(b []byte) int {
	var v struct {
		Data json.RawMessage `json:"data"`
	}
	if json.Unmarshal(b, &v) != nil {
		return -1
	}
	var k int
	if json.Unmarshal(v.Data, &k) != nil {
		return -1
	}
	return k
}

// ---- recording adapter (acknowledging, optionally ordered by priority, subscribable)

type recEntry struct {
	seq  int
	data any
	prio int
}

type recAdapter struct {
	ep      *episode
	idx     int
	byPrio  bool
	mu      sync.Mutex
	pending []recEntry
	unacked map[string]recEntry
	acked   map[string]bool
	nextSeq int
	nextAck int
	subs    []func(string)
	calls   map[string]int
	closed  bool
}

func newRecAdapter(ep *episode, idx int, byPrio bool) *recAdapter {
	return &recAdapter{ep: ep, idx: idx, byPrio: byPrio, unacked: map[string]recEntry{}, acked: map[string]bool{}, calls: map[string]int{}}
}

func entryKey(v any) int {
	switch x := v.(type) {
	case []byte:
		return keyOfBytes(x)
	case interface{ Data() int }:
		return x.Data()
	}
	return -1
}

// fault reports whether the n-th call of this kind is to be refused (per the program's fault script).
func (a *recAdapter) fault(call string) bool {
	n := a.calls[call]
	a.calls[call] = n + 1
	for _, k := range a.ep.prog.Faults[call] {
		if k == n {
			return true
		}
	}
	return false
}

func (a *recAdapter) Len() int {
	a.mu.Lock()
	defer a.mu.Unlock()
	return len(a.pending)
}

func (a *recAdapter) enqueue(item any, prio int) bool {
	a.mu.Lock()
	sq := a.ep.g.seq.Add(1)
	if a.closed || a.fault("enq") {
		a.mu.Unlock()
		a.ep.g.noteAt(sq, "ad.enq", "a", a.idx, "job", entryKey(item), "ok", false)
		return false
	}
	e := recEntry{seq: a.nextSeq, data: item, prio: prio}
	a.nextSeq++
	a.pending = append(a.pending, e)
	if a.byPrio {
		sort.SliceStable(a.pending, func(i, j int) bool { return a.pending[i].prio < a.pending[j].prio })
	}
	subs := append([]func(string){}, a.subs...)
	a.mu.Unlock()
	raw := ""
	if b, ok := item.([]byte); ok {
		raw = string(b)
	}
	a.ep.g.noteAt(sq, "ad.enq", "a", a.idx, "job", entryKey(item), "ok", true, "eseq", e.seq, "prio", prio, "raw", raw, "nsubs", len(subs))
	for _, s := range subs {
		s("enqueued")
	}
	return true
}

func (a *recAdapter) Enqueue(item any) bool { return a.enqueue(item, 0) }

// Dequeue without an acknowledgement id: the entry is gone for good (the library must not use it on this adapter)
func (a *recAdapter) Dequeue() (any, bool) {
	a.mu.Lock()
	if len(a.pending) == 0 {
		a.mu.Unlock()
		return nil, false
	}
	e := a.pending[0]
	a.pending = a.pending[1:]
	sq := a.ep.g.seq.Add(1)
	a.mu.Unlock()
	a.ep.g.noteAt(sq, "ad.deq", "a", a.idx, "ok", true, "job", entryKey(e.data), "eseq", e.seq, "ack", "")
	return e.data, true
}

// enqueueRaw stores an entry no worker can run: undecodable bytes, an invalid status, a foreign payload type, a closed job
func (a *recAdapter) enqueueRaw(kind string, prio int) {
	var b []byte
	switch kind {
	case "undecodable":
		b = []byte("{not json")
	case "badstatus":
		b = []byte(`{"id":"x","status":"Bogus","data":1}`)
	case "foreign":
		b = []byte(`{"id":"x","status":"Created","data":"a string, not an int"}`)
	case "trailing":
		// a well-formed entry followed by more bytes (a second entry glued on): not one JSON value, so not a job
		b = []byte(`{"id":"x","status":"Created","data":9999}{"id":"y","status":"Created","data":9998}`)
	default:
		b = []byte(`{"id":"x","status":"Closed","data":0}`)
	}
	a.enqueueBad(b, prio, kind)
}

func (a *recAdapter) enqueueBad(b []byte, prio int, kind string) {
	a.mu.Lock()
	sq := a.ep.g.seq.Add(1)
	e := recEntry{seq: a.nextSeq, data: b, prio: prio}
	a.nextSeq++
	a.pending = append(a.pending, e)
	if a.byPrio {
		sort.SliceStable(a.pending, func(i, j int) bool { return a.pending[i].prio < a.pending[j].prio })
	}
	subs := append([]func(string){}, a.subs...)
	a.mu.Unlock()
	a.ep.g.noteAt(sq, "ad.enq", "a", a.idx, "job", -1, "ok", true, "eseq", e.seq, "prio", prio, "bad", kind, "nsubs", len(subs))
	for _, s := range subs {
		s("enqueued")
	}
}

func (a *recAdapter) DequeueWithAckId() (any, bool, string) {
	a.mu.Lock()
	sq := a.ep.g.seq.Add(1)
	if len(a.pending) == 0 || a.fault("deq") {
		a.mu.Unlock()
		a.ep.g.noteAt(sq, "ad.deq", "a", a.idx, "ok", false)
		return nil, false, ""
	}
	e := a.pending[0]
	a.pending = a.pending[1:]
	a.nextAck++
	id := fmt.Sprintf("ack-%d-%d", a.idx, a.nextAck)
	a.unacked[id] = e
	a.mu.Unlock()
	a.ep.g.noteAt(sq, "ad.deq", "a", a.idx, "ok", true, "job", entryKey(e.data), "eseq", e.seq, "ack", id)
	return e.data, true, id
}

func (a *recAdapter) Acknowledge(id string) bool {
	a.mu.Lock()
	sq := a.ep.g.seq.Add(1)
	e, known := a.unacked[id]
	if a.fault("ack") {
		a.mu.Unlock()
		a.ep.g.noteAt(sq, "ad.ack", "a", a.idx, "ack", id, "ok", false, "known", known, "refused", true)
		return false
	}
	if known {
		delete(a.unacked, id)
		a.acked[id] = true
	}
	dup := a.acked[id] && !known
	a.mu.Unlock()
	a.ep.g.noteAt(sq, "ad.ack", "a", a.idx, "ack", id, "ok", known, "known", known, "dup", dup, "job", entryKey(e.data), "eseq", e.seq)
	return known
}

func (a *recAdapter) Values() []any {
	a.mu.Lock()
	defer a.mu.Unlock()
	out := make([]any, 0, len(a.pending))
	for _, e := range a.pending {
		out = append(out, e.data)
	}
	return out
}

func (a *recAdapter) Purge() {
	a.mu.Lock()
	sq := a.ep.g.seq.Add(1)
	n := len(a.pending)
	a.pending = nil
	a.mu.Unlock()
	a.ep.g.noteAt(sq, "ad.purge", "a", a.idx, "n", n)
}

func (a *recAdapter) Close() error {
	a.mu.Lock()
	a.closed = true
	a.mu.Unlock()
	return nil
}

func (a *recAdapter) Subscribe(fn func(action string)) {
	a.mu.Lock()
	a.subs = append(a.subs, fn)
	a.mu.Unlock()
	a.ep.g.point("ad.sub", "a", a.idx)
}

type recPrioAdapter struct{ *recAdapter }

func (a *recPrioAdapter) Enqueue(item any, priority int) bool { return a.enqueue(item, priority) }
