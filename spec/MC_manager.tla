----------------------------- MODULE MC_manager -----------------------------
(* Round-robin fairness of the queue manager (C15): a worker with concurrency 1 draining N queues.
   Every registered queue that is non-empty gets an equal share of the dispatches. *)
EXTENDS QueueDS
CONSTANTS NQ, MaxLen0
VARIABLES lens, cur, cnt, allSince
mvars == <<lens, cur, cnt, allSince>>
MInit == /\ FInit
         /\ lens \in [1..NQ -> 0..MaxLen0] /\ cur \in 0..(NQ - 1)
         /\ cnt = [i \in 1..NQ |-> 0] /\ allSince = (\A i \in 1..NQ : lens[i] > 0)
MStep == /\ UNCHANGED fvars
         /\ \E i \in 1..NQ : lens[i] > 0
         /\ LET r == RoundRobin(lens, cur) IN
              /\ r[1] >= 0
              /\ lens' = [lens EXCEPT ![r[1] + 1] = @ - 1]
              /\ cur' = r[2]
              /\ cnt' = [cnt EXCEPT ![r[1] + 1] = @ + 1]
              /\ allSince' = (allSince /\ \A i \in 1..NQ : lens'[i] > 0)
MSpec == MInit /\ [][MStep]_<<mvars, fvars>>
\* the chosen queue is never empty, and the cursor stays in range
C15_RRChoice == cur \in 0..(NQ - 1) /\ \A i \in 1..NQ : lens[i] >= 0
\* while all queues have stayed non-empty, their dispatch counts differ by at most one
C15_Fair == allSince => \A i, k \in 1..NQ : cnt[i] - cnt[k] \in {-1, 0, 1}
\* the strategies' results are among the allowed ones, for every length vector
C15_MaxMin == /\ \A i \in MaxLenAllowed(lens) : i = -1 \/ lens[i + 1] = MaxOf(lens)
              /\ \A i \in MinLenAllowed(lens) : i = -1 \/ (lens[i + 1] > 0 /\ \A k \in 1..NQ : lens[k] > 0 => lens[i + 1] <= lens[k])
              /\ (MaxLenAllowed(lens) = {-1}) = (\A k \in 1..NQ : lens[k] = 0)
              /\ (MinLenAllowed(lens) = {-1}) = (\A k \in 1..NQ : lens[k] = 0)
=============================================================================
