------------------------------- MODULE VarMQ -------------------------------
(***************************************************************************)
(* Core specification of goptics/varmq (one worker, one queue).            *)
(*                                                                         *)
(* Implementation-shaped: every goroutine of the Go code is a process with *)
(* a program counter; pc values are the labels of the vhook() points of    *)
(* /repo (build tag verif) plus a few internal labels (prefix "i.") where  *)
(* one Go statement sequence is split for modelling convenience.  One      *)
(* action = the code one goroutine executes from one label to the next.    *)
(* A process whose next action is disabled is blocked (channel, mutex,     *)
(* Cond, WaitGroup).                                                       *)
(*                                                                         *)
(* Processes: clients (finite scripts of public API calls, CONSTANT Prog), *)
(* dispatchers ("event loops", one per start()), pool goroutines (one per  *)
(* go node.Serve), the idle-worker remover, the context listener.          *)
(*                                                                         *)
(* w.mx is modelled as a plain mutex: only WaitUntilFinished holds it      *)
(* across labels; every other use (notify, sendError, isEventLoopSignal,   *)
(* Broadcast, closeChannels, ...) lies inside one action, which is then    *)
(* enabled only while nobody holds it.                                     *)
(***************************************************************************)
EXTENDS Integers, Sequences, FiniteSets, TLC

CONSTANTS
  Clients,    \* set of client ids (strings)
  Prog,       \* [Clients -> Seq(op)]; op = [op |-> "Add", job |-> 1] ...
  Jobs,       \* set of job ids (positive ints)
  Prio,       \* [Jobs -> Int]
  QKind,      \* "fifo" | "prio"
  Nodes,      \* set of pool node ids (ints)
  DispSeq,    \* dispatcher ids in allocation order, e.g. <<"disp1", "disp2">>
  PGSeq,      \* pool goroutine ids in allocation order, e.g. <<"pg1", "pg2", "pg3">>
  Conc0,      \* initial concurrency
  Ratio,      \* min idle worker ratio (0 = not configured)
  Expiry,     \* BOOLEAN: idle worker expiry configured (remover runs)
  WithCtx,    \* BOOLEAN: worker configured with a context
  MaxGen      \* bound on Restart generations

STOP == 0
ReapSeq == [i \in 1..(MaxGen + 1) |-> "reap" \o ToString(i)]      \* one remover / listener per start()
LisSeq == [i \in 1..(MaxGen + 1) |-> "ctx" \o ToString(i)]
SeqRange(s) == {s[i] : i \in DOMAIN s}
Disps == SeqRange(DispSeq)
PGs == SeqRange(PGSeq)
Reapers == SeqRange(ReapSeq)
Listeners == SeqRange(LisSeq)
Procs == Clients \cup Disps \cup PGs \cup Reapers \cup Listeners

VARIABLES
  S,   \* system state: one record (fields below), so that an action names only what it changes
  H    \* history for the properties (never read by the system part; excluded from the VIEW)

(* Fields of S:
   ws        "initiated" | "running" | "paused" | "stopped"
   cur, conc curProcessing, concurrency
   gen       generation of the current signal channel;  chanNil: eventLoopSignal == nil
   sigTok    generation -> 0..1 tokens buffered;  sigClosed: generation -> BOOLEAN
   lc        holder of the lifecycle mutex (Stop / Restart)
   mx        holder of w.mx ("none" or a process);  cond: processes parked in Cond.Wait
   q         queue contents Seq(job);  qclosed
   idle      idle list Seq(node);  nch: node -> Seq(payload), capacity 1;  cache: nodes in sync.Pool;  used: nodes created
   hd        jobs whose handle a client holds (their Add has returned true)
   jst       job -> "created"|"queued"|"processing"|"finished"|"closed";  jwg: job -> WaitGroup counter
   msub, mcomp, msucc, mfail
   ctxGen, ctxCanc   current context generation, cancelled generations
   tick      remover generations whose stop channel is open
   pc        process -> label;  stk: process -> Seq(label);  ip: client -> index of current op;  loc: process -> locals *)

vars == <<S, H>>

Gens == 0..MaxGen
Max(X) == CHOOSE x \in X : \A y \in X : y <= x
Last(s) == s[Len(s)]
Front(s) == SubSeq(s, 1, Len(s) - 1)
Range(s) == {s[i] : i \in DOMAIN s}
NoLoc == [j |-> 0, n |-> 0, node |-> 0, ok |-> TRUE, g |-> 0, snap |-> <<>>, jobs |-> <<>>, old |-> 0, shrink |-> 0,
          wsnap |-> {}, clean |-> FALSE, solo |-> FALSE, tok |-> 0, res |-> "nil"]

pc == S.pc
Op(c) == Prog[c][S.ip[c]]
HasOp(c) == S.ip[c] <= Len(Prog[c])

\* queue order: fifo appends; prio keeps the sequence sorted by (priority, insertion)
Enq(s, j) ==
  IF QKind = "fifo" THEN Append(s, j)
  ELSE LET k == Cardinality({i \in DOMAIN s : Prio[s[i]] <= Prio[j]})
       IN SubSeq(s, 1, k) \o <<j>> \o SubSeq(s, k + 1, Len(s))

MinIdle == IF Ratio = 0 THEN 1 ELSE Max({(S.conc * Ratio) \div 100, 1})
WaitCond == CASE S.ws = "running" -> Len(S.q) > 0 \/ S.cur > 0
              [] S.ws \in {"paused", "stopped"} -> S.cur > 0
              [] OTHER -> FALSE
MxFree == S.mx = "none"
\* the non-blocking send on the current signal channel (callers hold RLock): a dispatcher parked in its
\* range over that channel receives the token directly (the buffer stays empty), else it is buffered, else dropped
Ranging(s) == {d \in Disps : s.pc[d] = "i.range" /\ s.loc[d].g = s.gen /\ s.loc[d].tok = 0}
NotifyS(s) == IF s.chanNil \/ s.sigClosed[s.gen] THEN s
              ELSE IF Ranging(s) # {} THEN [s EXCEPT !.loc[CHOOSE d \in Ranging(s) : TRUE].tok = 1]
              ELSE IF s.sigTok[s.gen] = 0 THEN [s EXCEPT !.sigTok[s.gen] = 1]
              ELSE s

Init ==
  /\ S = [ws |-> "running", cur |-> 0, conc |-> Conc0, gen |-> 0, chanNil |-> FALSE,
          sigTok |-> [g \in Gens |-> IF g = 0 THEN 1 ELSE 0],     \* start()'s deferred notify
          sigClosed |-> [g \in Gens |-> FALSE],
          mx |-> "none", lc |-> "none", cond |-> {}, q |-> <<>>, qclosed |-> FALSE,
          idle |-> <<1>>, nch |-> [n \in Nodes |-> <<>>], cache |-> {}, used |-> {1},
          jst |-> [j \in Jobs |-> "created"], jwg |-> [j \in Jobs |-> 1], hd |-> {}, nohd |-> {},
          msub |-> 0, mcomp |-> 0, msucc |-> 0, mfail |-> 0,
          ctxGen |-> 0, ctxCanc |-> {}, pcancel |-> FALSE, tick |-> IF Expiry THEN {0} ELSE {},
          pc |-> [p \in Procs |-> IF p \in Clients THEN "call"
                                  ELSE IF p = "disp1" THEN "loop.start"
                                  ELSE IF p = "pg1" THEN "recv"
                                  ELSE IF p = "reap1" /\ Expiry THEN "reap.wait"
                                  ELSE IF p = "ctx1" /\ WithCtx THEN "ctx.wait"
                                  ELSE "unborn"],
          stk |-> [p \in Procs |-> <<>>],
          ip |-> [c \in Clients |-> 1],
          loc |-> [p \in Procs |-> IF p = "pg1" THEN [NoLoc EXCEPT !.node = 1] ELSE NoLoc]]
  /\ H = [enters |-> [j \in Jobs |-> 0], exits |-> [j \in Jobs |-> 0], accepted |-> {}, rejected |-> {}, cancelNil |-> {},
          closeStarted |-> {}, purged |-> {}, concMax |-> Conc0, epoch |-> "open", pauseStarts |-> 0, ctl |-> 0, viol |-> {}]

-----------------------------------------------------------------------------
(* Helpers: finishing a client op, returning from a sub-procedure, history *)

CtlOps == {"Pause", "PauseAndWait", "Resume", "Stop", "WaitAndStop", "Restart", "CancelCtx"}
Inflight == {j \in Jobs : H.enters[j] > H.exits[j]}
Settled(j) == H.exits[j] >= 1 \/ j \in H.closeStarted \/ j \in H.purged \/ j \in H.rejected

\* the client's current op is complete ("ret"): it parks at the call point of its next op
Fin(s, c) == [s EXCEPT !.ip[c] = @ + 1,
                       !.pc[c] = IF s.ip[c] + 1 <= Len(Prog[c]) THEN "call" ELSE "done",
                       !.stk[c] = <<>>, !.loc[c] = NoLoc]
\* return from a sub-procedure: continue at the label on top of the stack, or finish the op
Pop(s, p) == IF s.stk[p] = <<>> THEN (IF p \in Clients THEN Fin(s, p) ELSE [s EXCEPT !.pc[p] = "dead"]) ELSE [s EXCEPT !.pc[p] = Head(s.stk[p]), !.stk[p] = Tail(@)]
Returns(p) == S.stk[p] = <<>>
\* a control call begins: no pending WaitUntilFinished is "on a running worker" for sure any more
Dirty(s) == [s EXCEPT !.loc = [p \in Procs |-> [s.loc[p] EXCEPT !.clean = FALSE, !.solo = FALSE]]]

Checks(c, res) ==
  LET o == Op(c) IN
    (IF o.op = "WUF" /\ S.loc[c].clean /\ (\E j \in S.loc[c].wsnap : ~Settled(j)) THEN {"C06_WUF"} ELSE {})
    \cup (IF o.op \in {"PauseAndWait", "Stop", "WaitAndStop"} /\ res = "nil" /\ S.loc[c].solo /\ Inflight # {} THEN {"C06_Drained"} ELSE {})
    \cup (IF o.op = "Wait" /\ ~Settled(o.job) THEN {"C05_NotEarly"} ELSE {})
    \cup (IF o.op = "Close" /\ res = "nil" /\ H.enters[o.job] # H.exits[o.job] THEN {"C10_CloseWins"} ELSE {})
    \cup (IF o.op = "Close" /\ o.job \in H.cancelNil /\ res # "ErrJobAlreadyClosed" THEN {"C10_CloseCodes"} ELSE {})

\* history at the return of client c's current op with result res
HFin(c, res) ==
  LET o == Op(c) IN
  [H EXCEPT !.accepted = IF o.op = "Add" /\ res = "ok" THEN @ \cup {o.job} ELSE @,
            !.rejected = IF o.op = "Add" /\ res = "rej" THEN @ \cup {o.job} ELSE @,
            !.cancelNil = IF o.op = "Close" /\ res = "nil" THEN @ \cup {o.job} ELSE @,
            !.ctl = IF o.op \in CtlOps THEN @ - 1 ELSE @,
            !.epoch = IF o.op \in {"PauseAndWait", "Stop", "WaitAndStop"} /\ res = "nil" /\ S.loc[c].solo THEN "strict"
                      ELSE IF o.op = "Pause" /\ res = "nil" /\ S.loc[c].solo /\ H.epoch = "open" /\ S.ws = "paused" THEN "pause"
                      ELSE @,
            !.pauseStarts = IF o.op = "Pause" THEN 0 ELSE @,
            !.viol = @ \cup Checks(c, res)]
\* history when a sub-procedure returns: only if that completes the op
HPop(p, res) == IF Returns(p) /\ p \in Clients THEN HFin(p, res) ELSE H

-----------------------------------------------------------------------------
(* Clients *)

AtCall(c, op) == c \in Clients /\ S.pc[c] = "call" /\ HasOp(c) /\ Op(c).op = op

C_Add(c) ==
  /\ AtCall(c, "Add")
  /\ LET j == Op(c).job IN
       S' = IF S.qclosed
              THEN [S EXCEPT !.jst[j] = "queued", !.pc[c] = "add.enq", !.loc[c].ok = FALSE, !.loc[c].j = j]
              ELSE [S EXCEPT !.jst[j] = "queued", !.q = Enq(@, j), !.pc[c] = "add.enq", !.loc[c].ok = TRUE, !.loc[c].j = j]
  /\ UNCHANGED H

\* rejected: j.Close() = markClosed, (hook), wg.Done
C_AddRejected(c) ==
  /\ c \in Clients /\ S.pc[c] = "add.enq" /\ ~S.loc[c].ok
  /\ S' = [S EXCEPT !.jst[S.loc[c].j] = "closed", !.pc[c] = "jclose.marked"]
  /\ UNCHANGED H

\* accepted: incSubmitted, notify (RLock), return
C_AddNotify(c) ==
  /\ c \in Clients /\ S.pc[c] = "add.enq" /\ S.loc[c].ok /\ MxFree
  /\ S' = Fin(NotifyS([S EXCEPT !.msub = @ + 1, !.hd = @ \cup {S.loc[c].j}]), c)
  /\ H' = HFin(c, "ok")

\* after markClosed succeeded: wg.Done, return (shared by Close, the rejected Add and Purge)
J_Done(c) ==
  /\ c \in Clients /\ S.pc[c] = "jclose.marked"
  /\ S' = Pop([S EXCEPT !.jwg[S.loc[c].j] = @ - 1, !.nohd = IF Op(c).op = "Add" THEN @ \cup {S.loc[c].j} ELSE @], c)
  /\ H' = HPop(c, IF Op(c).op = "Add" THEN "rej" ELSE "nil")

\* an op on the handle of a job whose Add was rejected: there is no handle, nothing is called
C_NoHandle(c) ==
  /\ c \in Clients /\ S.pc[c] = "call" /\ HasOp(c) /\ Op(c).op \in {"Close", "Wait"} /\ Op(c).job \in S.nohd
  /\ S' = Fin(S, c)
  /\ H' = [H EXCEPT !.ctl = @]

C_Close(c) ==
  /\ AtCall(c, "Close") /\ Op(c).job \in S.hd
  /\ LET j == Op(c).job IN
       CASE S.jst[j] = "processing" -> S' = Fin(S, c) /\ H' = [HFin(c, "ErrJobProcessing") EXCEPT !.closeStarted = @ \cup {j}]
         [] S.jst[j] = "closed" -> S' = Fin(S, c) /\ H' = [HFin(c, "ErrJobAlreadyClosed") EXCEPT !.closeStarted = @ \cup {j}]
         [] OTHER -> /\ S' = [S EXCEPT !.jst[j] = "closed", !.pc[c] = "jclose.marked", !.loc[c].j = j]
                     /\ H' = [H EXCEPT !.closeStarted = @ \cup {j}]

C_Wait(c) ==
  /\ AtCall(c, "Wait") /\ Op(c).job \in S.hd /\ S.jwg[Op(c).job] = 0
  /\ S' = Fin(S, c)
  /\ H' = HFin(c, "nil")

\* read-only calls (Status, NumPending, Metrics, ...) change nothing
C_Nop(c) ==
  /\ AtCall(c, "Nop")
  /\ S' = Fin(S, c)
  /\ H' = H

C_QClose(c) ==
  /\ AtCall(c, "QClose")
  /\ S' = Fin([S EXCEPT !.qclosed = TRUE], c)
  /\ H' = HFin(c, "nil")

---- \* WaitUntilFinished (as an op, and as the body of PauseAndWait / Stop / WaitAndStop / Restart)
C_WUF(c) ==
  /\ AtCall(c, "WUF") /\ MxFree
  /\ S' = [S EXCEPT !.mx = c, !.pc[c] = "wuf.locked", !.loc[c].wsnap = H.accepted, !.loc[c].clean = (S.ws = "running" /\ H.ctl = 0)]
  /\ UNCHANGED H
I_Wuf(p) ==
  /\ S.pc[p] = "i.wuf" /\ MxFree
  /\ S' = [S EXCEPT !.mx = p, !.pc[p] = "wuf.locked"]
  /\ UNCHANGED H
W_Cond(p) ==
  /\ S.pc[p] \in {"wuf.locked", "wuf.woken"}
  /\ IF WaitCond THEN S' = [S EXCEPT !.pc[p] = "wuf.wait"] /\ UNCHANGED H
     ELSE S' = Pop([S EXCEPT !.mx = "none"], p) /\ H' = HPop(p, "nil")
W_Park(p) ==
  /\ S.pc[p] = "wuf.wait"
  /\ S' = [S EXCEPT !.cond = @ \cup {p}, !.mx = "none", !.pc[p] = "wuf.cw"]
  /\ UNCHANGED H
W_Wake(p) ==
  /\ S.pc[p] = "wuf.cw" /\ p \notin S.cond /\ MxFree
  /\ S' = [S EXCEPT !.mx = p, !.pc[p] = "wuf.woken"]
  /\ UNCHANGED H

---- \* Pause / PauseAndWait
C_Pause(c) ==
  /\ c \in Clients /\ S.pc[c] = "call" /\ HasOp(c) /\ Op(c).op \in {"Pause", "PauseAndWait"}
  /\ S' = [Dirty(S) EXCEPT !.pc[c] = "i.pause", !.stk[c] = IF Op(c).op = "PauseAndWait" THEN <<"i.wuf">> ELSE <<>>, !.loc[c].solo = (H.ctl = 0)]
  /\ H' = [H EXCEPT !.ctl = @ + 1]
\* Pause(): load the status
I_Pause(p) ==
  /\ S.pc[p] = "i.pause"
  /\ CASE S.ws = "running" -> S' = [S EXCEPT !.pc[p] = "pause.load"] /\ UNCHANGED H
       [] S.ws \in {"paused", "stopped"} -> S' = Pop(S, p) /\ H' = HPop(p, "nil")
       [] OTHER -> \* ErrNotRunningWorker: PauseAndWait returns it without waiting
                   LET s1 == IF S.stk[p] # <<>> /\ Head(S.stk[p]) = "i.wuf" THEN [S EXCEPT !.stk[p] = Tail(@)] ELSE S
                       s2 == IF s1.stk[p] # <<>> /\ Head(s1.stk[p]) \in {"i.stop2", "i.rs.nodes"} THEN [s1 EXCEPT !.stk[p] = <<>>] ELSE s1
                       s3 == [s2 EXCEPT !.lc = IF s2.lc = p THEN "none" ELSE @]
                   IN S' = Pop(s3, p) /\ H' = IF s3.stk[p] = <<>> /\ p \in Clients THEN HFin(p, "ErrNotRunningWorker") ELSE H
P_Store(p) ==
  /\ S.pc[p] = "pause.load"
  /\ S' = Pop([S EXCEPT !.ws = "paused"], p)
  /\ H' = IF Returns(p) /\ p \in Clients THEN [H EXCEPT !.ctl = @ - 1, !.pauseStarts = 0,
                                                          !.epoch = IF S.loc[p].solo /\ H.epoch = "open" THEN "pause" ELSE @]
          ELSE H

---- \* Resume
C_Resume(c) ==
  /\ AtCall(c, "Resume")
  /\ CASE S.ws = "stopped" -> S' = Fin(Dirty(S), c) /\ H' = [H EXCEPT !.epoch = "open", !.pauseStarts = 0]
       [] S.ws = "initiated" -> S' = [Dirty(S) EXCEPT !.pc[c] = "i.start"] /\ H' = [H EXCEPT !.ctl = @ + 1, !.epoch = "open", !.pauseStarts = 0]
       [] S.ws = "running" -> S' = Fin(Dirty(S), c) /\ H' = [H EXCEPT !.epoch = "open", !.pauseStarts = 0]
       [] OTHER -> S' = [Dirty(S) EXCEPT !.pc[c] = "resume.check"] /\ H' = [H EXCEPT !.ctl = @ + 1, !.epoch = "open", !.pauseStarts = 0]
R_Store(p) ==
  /\ S.pc[p] = "resume.check"
  /\ S' = [S EXCEPT !.ws = "running", !.pc[p] = "resume.stored"]
  /\ UNCHANGED H
R_Notify(p) ==
  /\ S.pc[p] = "resume.stored" /\ MxFree
  /\ S' = Fin(NotifyS(S), p)
  /\ H' = HFin(p, "nil")

---- \* TunePool
C_Tune(c) ==
  /\ AtCall(c, "TunePool")
  /\ LET n == Op(c).n IN
       IF S.ws # "running" \/ S.conc = n THEN S' = Fin(S, c) /\ UNCHANGED H
       ELSE /\ S' = [S EXCEPT !.conc = n, !.loc[c].old = S.conc, !.loc[c].n = n, !.pc[c] = "tune.stored"]
            /\ H' = [H EXCEPT !.concMax = Max({@, n})]
T_After(p) ==
  /\ S.pc[p] = "tune.stored"
  /\ IF S.loc[p].n > S.loc[p].old THEN MxFree /\ S' = Fin(NotifyS(S), p)
     ELSE IF Expiry THEN S' = Fin(S, p)
     ELSE S' = [S EXCEPT !.loc[p].shrink = S.loc[p].old - S.loc[p].n, !.pc[p] = "i.tune.loop"]
  /\ UNCHANGED H
T_Loop(p) ==
  /\ S.pc[p] = "i.tune.loop"
  /\ IF S.loc[p].shrink > 0 /\ Len(S.idle) > MinIdle /\ S.idle # <<>>
       THEN S' = [S EXCEPT !.idle = Front(@), !.loc[p].node = Last(S.idle), !.loc[p].shrink = @ - 1, !.pc[p] = "tune.popped"]
       ELSE S' = Fin(S, p)
  /\ UNCHANGED H
T_Stop(p) ==
  /\ S.pc[p] = "tune.popped" /\ Len(S.nch[S.loc[p].node]) < 1
  /\ S' = [S EXCEPT !.nch[S.loc[p].node] = Append(@, STOP), !.cache = @ \cup {S.loc[p].node}, !.pc[p] = "i.tune.loop"]
  /\ UNCHANGED H

---- \* Purge of an in-memory queue: dequeue at most Len() jobs, closing each
C_Purge(c) ==
  /\ AtCall(c, "Purge")
  /\ S' = [S EXCEPT !.loc[c].n = Len(S.q), !.pc[c] = "i.purge.loop"]
  /\ UNCHANGED H
U_Deq(p) ==
  /\ S.pc[p] = "i.purge.loop"
  /\ IF S.loc[p].n = 0 THEN S' = Fin(S, p) /\ H' = HFin(p, "nil")
     ELSE IF S.q = <<>> THEN S' = [S EXCEPT !.loc[p].ok = FALSE, !.pc[p] = "purge.deq"] /\ UNCHANGED H
     ELSE /\ S' = [S EXCEPT !.loc[p].j = Head(S.q), !.q = Tail(@), !.loc[p].n = @ - 1, !.loc[p].ok = TRUE, !.pc[p] = "purge.deq"]
          /\ H' = [H EXCEPT !.purged = @ \cup {Head(S.q)}]
U_Close(p) ==
  /\ S.pc[p] = "purge.deq"
  /\ IF ~S.loc[p].ok THEN S' = Fin(S, p) /\ H' = HFin(p, "nil")
     ELSE /\ UNCHANGED H
          /\ IF S.jst[S.loc[p].j] \in {"processing", "closed"}
               THEN S' = [S EXCEPT !.pc[p] = "i.purge.loop"]
               ELSE S' = [S EXCEPT !.jst[S.loc[p].j] = "closed", !.pc[p] = "jclose.marked", !.stk[p] = <<"i.purge.loop">>]

---- \* Stop / WaitAndStop (any process: clients and the context listener)
C_Stop(c) ==
  /\ AtCall(c, "Stop")
  /\ S' = [Dirty(S) EXCEPT !.pc[c] = "i.stop", !.loc[c].solo = (H.ctl = 0)]
  /\ H' = [H EXCEPT !.ctl = @ + 1]
C_WaitAndStop(c) ==
  /\ AtCall(c, "WaitAndStop")
  /\ S' = [Dirty(S) EXCEPT !.pc[c] = "i.wuf", !.stk[c] = <<"i.stop">>, !.loc[c].solo = (H.ctl = 0)]
  /\ H' = [H EXCEPT !.ctl = @ + 1]
\* Stop(): the switch on the status
I_Stop(p) ==
  /\ S.pc[p] = "i.stop" /\ S.lc \in {"none", p}
  /\ LET rel == [S EXCEPT !.lc = "none"] IN
     CASE S.ws = "stopped" -> S' = Pop(rel, p) /\ H' = HPop(p, "nil")
       [] S.ws = "running" -> S' = [S EXCEPT !.lc = p, !.pc[p] = "i.pause", !.stk[p] = <<"i.wuf", "i.stop2">> \o @] /\ UNCHANGED H
       [] S.ws = "paused" -> S' = [S EXCEPT !.lc = p, !.pc[p] = "i.wuf", !.stk[p] = <<"i.stop2">> \o @] /\ UNCHANGED H
       [] OTHER -> S' = Pop(rel, p) /\ H' = HPop(p, "ErrNotRunningWorker")
I_Stop2(p) ==
  /\ S.pc[p] = "i.stop2"
  /\ S' = [S EXCEPT !.pc[p] = "stop.waited"]
  /\ UNCHANGED H
\* read cancel (RLock), stopTickers (Lock), closeChannels (Lock)
CloseChans(s) == IF s.chanNil THEN s ELSE [s EXCEPT !.sigClosed[s.gen] = TRUE, !.chanNil = TRUE]
S_Chans(p) ==
  /\ S.pc[p] = "stop.waited" /\ MxFree
  /\ S' = [CloseChans(S) EXCEPT !.tick = {}, !.loc[p].g = S.ctxGen, !.pc[p] = "stop.chans"]
  /\ UNCHANGED H
S_Nodes(p) ==
  /\ S.pc[p] = "stop.chans"
  /\ S' = [S EXCEPT !.loc[p].snap = S.idle, !.pc[p] = "i.stopall", !.stk[p] = <<"stop.nodes">> \o @]
  /\ UNCHANGED H
\* stopAndRemoveAllWorkers: for every node of the snapshot, act only if this call unlinked it
I_StopAll(p) ==
  /\ S.pc[p] = "i.stopall"
  /\ UNCHANGED H
  /\ IF S.loc[p].snap = <<>> THEN S' = Pop(S, p)
     ELSE LET n == Head(S.loc[p].snap) IN
          IF n \in Range(S.idle)
            THEN S' = [S EXCEPT !.idle = SelectSeq(@, LAMBDA x : x # n), !.loc[p].snap = Tail(@), !.loc[p].node = n, !.pc[p] = "stopall.removed"]
            ELSE S' = [S EXCEPT !.loc[p].snap = Tail(@)]
SA_Stop(p) ==
  /\ S.pc[p] = "stopall.removed" /\ Len(S.nch[S.loc[p].node]) < 1
  /\ S' = [S EXCEPT !.nch[S.loc[p].node] = Append(@, STOP), !.cache = @ \cup {S.loc[p].node}, !.pc[p] = "i.stopall"]
  /\ UNCHANGED H
\* deferred: status.Store(stopped); cancel()
SP_Fin(p) ==
  /\ S.pc[p] = "stop.nodes"
  /\ S' = Pop([S EXCEPT !.ws = "stopped", !.lc = "none", !.ctxCanc = IF WithCtx THEN @ \cup {S.loc[p].g} ELSE @], p)
  /\ H' = HPop(p, "nil")

---- \* Restart and start()
C_Restart(c) ==
  /\ AtCall(c, "Restart") /\ S.gen < MaxGen
  /\ S' = [Dirty(S) EXCEPT !.pc[c] = "i.restart"]
  /\ H' = [H EXCEPT !.ctl = @ + 1, !.epoch = "open", !.pauseStarts = 0]
I_Restart(p) ==
  /\ S.pc[p] = "i.restart" /\ S.lc = "none"
  /\ UNCHANGED H
  /\ CASE S.ws = "running" -> S' = [S EXCEPT !.lc = p, !.pc[p] = "i.pause", !.stk[p] = <<"i.wuf", "i.rs.nodes", "i.rs2">>]
       [] S.ws = "paused" -> S' = [S EXCEPT !.lc = p, !.pc[p] = "i.wuf", !.stk[p] = <<"i.rs.nodes", "i.rs2">>]
       [] OTHER -> S' = [S EXCEPT !.lc = p, !.pc[p] = "i.rs2"]
I_RsNodes(p) ==
  /\ S.pc[p] = "i.rs.nodes"
  /\ S' = [S EXCEPT !.loc[p].snap = S.idle, !.pc[p] = "i.stopall"]
  /\ UNCHANGED H
I_Rs2(p) ==
  /\ S.pc[p] = "i.rs2"
  /\ S' = [S EXCEPT !.pc[p] = "restart.waited", !.stk[p] = <<>>]
  /\ UNCHANGED H
RS_Close(p) ==
  /\ S.pc[p] = "restart.waited" /\ MxFree
  /\ S' = [CloseChans(S) EXCEPT !.tick = {}, !.pc[p] = "restart.closed"]
  /\ UNCHANGED H
RS_New(p) ==
  /\ S.pc[p] = "restart.closed" /\ MxFree /\ S.gen < MaxGen
  /\ S' = [S EXCEPT !.gen = @ + 1, !.chanNil = FALSE, !.sigTok[S.gen + 1] = 0,
                    !.ctxCanc = IF WithCtx THEN @ \cup {S.ctxGen} ELSE @, !.ctxGen = IF WithCtx THEN @ + 1 ELSE @,
                    !.pc[p] = "restart.newchans"]
  /\ UNCHANGED H
RS_Reset(p) ==
  /\ S.pc[p] = "restart.newchans"
  /\ S' = [S EXCEPT !.ws = "initiated", !.pc[p] = "restart.reset"]
  /\ UNCHANGED H
RS_Start(p) ==
  /\ S.pc[p] = "restart.reset"
  /\ S' = [S EXCEPT !.pc[p] = "i.start"]
  /\ UNCHANGED H
I_Start(p) ==
  /\ S.pc[p] = "i.start"
  /\ IF S.ws # "initiated" THEN S' = Pop([S EXCEPT !.lc = IF S.lc = p THEN "none" ELSE @], p) /\ H' = HPop(p, "ErrRunningWorker")
     ELSE S' = [S EXCEPT !.pc[p] = "start.enter"] /\ UNCHANGED H
\* goEventLoop, goRemoveIdleWorkers, goListenToContext, initPoolNode (Cache.Get: a cached node or a new one)
Unborn(sq) == {i \in DOMAIN sq : S.pc[sq[i]] = "unborn"}
FirstUnborn(sq) == sq[CHOOSE i \in Unborn(sq) : \A k \in Unborn(sq) : i <= k]   \* ids are allocated in order
\* goEventLoop: the new dispatcher exists from here on
ST_Go(p) ==
  /\ S.pc[p] = "start.enter"
  /\ Unborn(DispSeq) # {}
  /\ LET d == FirstUnborn(DispSeq) IN
       S' = [S EXCEPT !.pc[d] = "loop.start", !.loc[d].g = S.gen, !.pc[p] = "i.start.2"]
  /\ UNCHANGED H
\* goRemoveIdleWorkers (appends its ticker under w.mx), goListenToContext, initPoolNode
ST_Go2(p) ==
  /\ S.pc[p] = "i.start.2" /\ (Expiry => MxFree)
  /\ Unborn(PGSeq) # {}
  /\ Expiry => Unborn(ReapSeq) # {}
  /\ \E n \in S.cache \cup (IF Nodes \ S.used = {} THEN {} ELSE {CHOOSE m \in Nodes \ S.used : \A k \in Nodes \ S.used : m <= k}) :
       LET g == FirstUnborn(PGSeq)
           s1 == [S EXCEPT !.pc[g] = "recv", !.loc[g].node = n,
                           !.cache = @ \ {n}, !.used = @ \cup {n},
                           !.loc[p].node = n, !.pc[p] = "node.init"]
           s2 == IF Expiry THEN [s1 EXCEPT !.pc[FirstUnborn(ReapSeq)] = "reap.wait", !.loc[FirstUnborn(ReapSeq)].g = S.gen, !.tick = @ \cup {S.gen}] ELSE s1
       IN S' = s2
  /\ UNCHANGED H
ST_Push(p) ==
  /\ S.pc[p] = "node.init" /\ p \notin Disps
  /\ S' = [S EXCEPT !.idle = Append(@, S.loc[p].node), !.pc[p] = "start.node"]
  /\ UNCHANGED H
\* deferred: status.Store(running); goListenToContext ...
ST_Fin(p) ==
  /\ S.pc[p] = "start.node"
  /\ WithCtx => Unborn(LisSeq) # {}
  /\ S' = IF WithCtx THEN [S EXCEPT !.ws = "running", !.pc[p] = "i.start.notify",
                                    !.pc[FirstUnborn(LisSeq)] = "ctx.wait", !.loc[FirstUnborn(LisSeq)].g = S.ctxGen]
          ELSE [S EXCEPT !.ws = "running", !.pc[p] = "i.start.notify"]
  /\ UNCHANGED H
\* ... then notify (RLock)
ST_Notify(p) ==
  /\ S.pc[p] = "i.start.notify" /\ MxFree
  /\ LET s1 == NotifyS(S) IN
       S' = Pop([s1 EXCEPT !.lc = IF s1.lc = p THEN "none" ELSE @], p)
  /\ H' = HPop(p, "nil")

---- \* cancelling the user's context (client op) and the context listener
CtxDone(g) == g \in S.ctxCanc \/ S.pcancel
C_CancelCtx(c) ==
  /\ AtCall(c, "CancelCtx")
  /\ S' = Fin([Dirty(S) EXCEPT !.pcancel = TRUE], c)
  /\ H' = H
X_Fire(x) ==
  /\ x \in Listeners /\ S.pc[x] = "ctx.wait" /\ CtxDone(S.loc[x].g)
  /\ S' = [S EXCEPT !.pc[x] = "ctx.fired"]
  /\ UNCHANGED H
\* stop(c): under the lifecycle mutex, only the listener of the worker's current context stops the worker
X_Check(x) ==
  /\ x \in Listeners /\ S.pc[x] = "ctx.fired" /\ S.lc = "none" /\ MxFree
  /\ S' = IF S.ctxGen = S.loc[x].g THEN [Dirty(S) EXCEPT !.lc = x, !.pc[x] = "i.stop"] ELSE [S EXCEPT !.pc[x] = "dead"]
  /\ H' = IF S.ctxGen = S.loc[x].g THEN [H EXCEPT !.ctl = @ + 1] ELSE H

---- \* idle-worker remover
RP_Tick(r) ==
  /\ r \in Reapers /\ S.pc[r] = "reap.wait"
  /\ \/ S.loc[r].g \in S.tick /\ S' = [S EXCEPT !.pc[r] = "reap.tick"]
     \/ S.loc[r].g \notin S.tick /\ S' = [S EXCEPT !.pc[r] = "dead"]
     \* the select may still pick one tick that was buffered before the ticker was stopped
     \/ S.loc[r].g \notin S.tick /\ S.loc[r].ok /\ S' = [S EXCEPT !.loc[r].ok = FALSE, !.pc[r] = "reap.tick"]
  /\ UNCHANGED H
RP_Len(r) ==
  /\ r \in Reapers /\ S.pc[r] = "reap.tick"
  /\ S' = IF Len(S.idle) <= MinIdle THEN [S EXCEPT !.pc[r] = "reap.wait"]
          ELSE [S EXCEPT !.loc[r].snap = SubSeq(S.idle, MinIdle + 1, Len(S.idle)), !.pc[r] = "reap.snap"]
  /\ UNCHANGED H
\* per node of the snapshot: expired (nondeterministic) and unlinked by this call => stop it
RP_Next(r) ==
  /\ r \in Reapers /\ S.pc[r] \in {"reap.snap", "i.reap.next"}
  /\ UNCHANGED H
  /\ IF S.loc[r].snap = <<>> THEN S' = [S EXCEPT !.pc[r] = "reap.wait"]
     ELSE LET n == Head(S.loc[r].snap) IN
          \/ S' = [S EXCEPT !.loc[r].snap = Tail(@), !.pc[r] = "i.reap.next"]      \* not expired, or no longer linked
          \/ /\ n \in Range(S.idle)
             /\ S' = [S EXCEPT !.idle = SelectSeq(@, LAMBDA x : x # n), !.loc[r].snap = Tail(@), !.loc[r].node = n, !.pc[r] = "reap.removed"]
RP_Stop(r) ==
  /\ r \in Reapers /\ S.pc[r] = "reap.removed" /\ Len(S.nch[S.loc[r].node]) < 1
  /\ S' = [S EXCEPT !.nch[S.loc[r].node] = Append(@, STOP), !.cache = @ \cup {S.loc[r].node}, !.pc[r] = "reap.stopped"]
  /\ UNCHANGED H
RP_Cont(r) ==
  /\ r \in Reapers /\ S.pc[r] = "reap.stopped"
  /\ S' = [S EXCEPT !.pc[r] = "i.reap.next"]
  /\ UNCHANGED H

-----------------------------------------------------------------------------
(* releaseWaiters(processing): shared by the dispatcher and the pool goroutines.
   loc.n = the value passed; the label to continue at is on top of the stack. *)
Rel_Eval(p) ==
  /\ S.pc[p] = "rel.enter"
  /\ S' = IF S.loc[p].n = 0 /\ (S.ws \in {"paused", "stopped"} \/ (S.ws = "running" /\ Len(S.q) = 0))
            THEN [S EXCEPT !.pc[p] = "rel.bcast"]
            ELSE [S EXCEPT !.pc[p] = Head(S.stk[p]), !.stk[p] = Tail(@)]
  /\ UNCHANGED H
Rel_Bcast(p) ==
  /\ S.pc[p] = "rel.bcast" /\ MxFree
  /\ S' = [S EXCEPT !.cond = {}, !.pc[p] = Head(S.stk[p]), !.stk[p] = Tail(@)]
  /\ UNCHANGED H

-----------------------------------------------------------------------------
(* Dispatcher ("event loop") d; loc[d].g is the generation of the channel it captured *)

MayDispatch(d) == S.ws = "running" /\ ~S.chanNil /\ S.gen = S.loc[d].g
\* for range signal: take a buffered token, leave when the channel is closed and empty, else park in the receive
D_Take(d) ==
  /\ d \in Disps /\ S.pc[d] \in {"loop.start", "loop.idle"}
  /\ S' = IF S.sigTok[S.loc[d].g] = 1 THEN [S EXCEPT !.sigTok[S.loc[d].g] = 0, !.pc[d] = "loop.wake"]
          ELSE IF S.sigClosed[S.loc[d].g] THEN [S EXCEPT !.pc[d] = "loop.exit"]
          ELSE [S EXCEPT !.pc[d] = "i.range"]
  /\ UNCHANGED H
\* parked in the receive: woken by a token handed over, a buffered token, or the close
D_Woken(d) ==
  /\ d \in Disps /\ S.pc[d] = "i.range"
  /\ \/ S.loc[d].tok = 1 /\ S' = [S EXCEPT !.loc[d].tok = 0, !.pc[d] = "loop.wake"]
     \/ S.loc[d].tok = 0 /\ S.sigTok[S.loc[d].g] = 1 /\ S' = [S EXCEPT !.sigTok[S.loc[d].g] = 0, !.pc[d] = "loop.wake"]
     \/ S.loc[d].tok = 0 /\ S.sigTok[S.loc[d].g] = 0 /\ S.sigClosed[S.loc[d].g] /\ S' = [S EXCEPT !.pc[d] = "loop.exit"]
  /\ UNCHANGED H
D_Exit(d) ==
  /\ d \in Disps /\ S.pc[d] = "loop.exit"
  /\ S' = [S EXCEPT !.pc[d] = "dead"]
  /\ UNCHANGED H
\* the inner loop's condition: IsRunning() first; only then isEventLoopSignal (RLock), curProcessing, Len;
\* false: releaseWaiters(curProcessing.Load()) and back to the range
D_Check(d) ==
  /\ d \in Disps /\ S.pc[d] \in {"loop.wake", "disp.sent", "disp.release", "i.loop"}
  /\ S.pc[d] = "disp.release" => S.loc[d].res # "handover"
  /\ S' = IF S.ws = "running" THEN [S EXCEPT !.pc[d] = "i.loop.lock"]
          ELSE [S EXCEPT !.loc[d].n = S.cur, !.pc[d] = "rel.enter", !.stk[d] = <<"loop.idle">>]
  /\ UNCHANGED H
D_Check2(d) ==
  /\ d \in Disps /\ S.pc[d] = "i.loop.lock" /\ MxFree
  /\ S' = IF ~S.chanNil /\ S.gen = S.loc[d].g /\ S.cur < S.conc /\ Len(S.q) > 0
            THEN [S EXCEPT !.pc[d] = "loop.pass"]
            ELSE [S EXCEPT !.loc[d].n = S.cur, !.pc[d] = "rel.enter", !.stk[d] = <<"loop.idle">>]
  /\ UNCHANGED H
\* the slot is taken by compare-and-swap, never above the limit
D_Reserve(d) ==
  /\ d \in Disps /\ S.pc[d] = "loop.pass"
  /\ S' = IF S.cur < S.conc THEN [S EXCEPT !.cur = @ + 1, !.pc[d] = "disp.reserve"] ELSE [S EXCEPT !.pc[d] = "i.loop"]
  /\ UNCHANGED H
\* re-check after reserving (IsRunning() first, then isEventLoopSignal under RLock); next()+Dequeue;
\* on any failure the slot is given back (deferred); a dispatch that backs out because its loop may not
\* dispatch any more signals the current loop afterwards
BackOut(d, why) == [S EXCEPT !.cur = @ - 1, !.loc[d].n = S.cur - 1, !.pc[d] = "rel.enter", !.stk[d] = <<"disp.release">>, !.loc[d].res = why]
D_Recheck(d) ==
  /\ d \in Disps /\ S.pc[d] = "disp.reserve"
  /\ S' = IF S.ws = "running" THEN [S EXCEPT !.pc[d] = "i.disp.lock"] ELSE BackOut(d, "handover")
  /\ UNCHANGED H
D_Deq(d) ==
  /\ d \in Disps /\ S.pc[d] = "i.disp.lock" /\ MxFree
  /\ S' = IF S.chanNil \/ S.gen # S.loc[d].g THEN BackOut(d, "handover")
          ELSE IF Len(S.q) = 0 THEN BackOut(d, "nil")
          ELSE [S EXCEPT !.loc[d].j = Head(S.q), !.q = Tail(@), !.pc[d] = "disp.deq"]
  /\ UNCHANGED H
D_HandOver(d) ==
  /\ d \in Disps /\ S.pc[d] = "disp.release" /\ S.loc[d].res = "handover" /\ MxFree
  /\ S' = [NotifyS(S) EXCEPT !.loc[d].res = "nil", !.pc[d] = "i.loop"]
  /\ UNCHANGED H
\* startProcessing: compare-and-swap to Processing unless Closed
D_Proc(d) ==
  /\ d \in Disps /\ S.pc[d] = "disp.deq"
  /\ S' = IF S.jst[S.loc[d].j] = "closed"
            THEN [S EXCEPT !.loc[d].ok = FALSE, !.pc[d] = "disp.proc"]
            ELSE [S EXCEPT !.jst[S.loc[d].j] = "processing", !.loc[d].ok = TRUE, !.pc[d] = "disp.proc"]
  /\ UNCHANGED H
D_Skip(d) ==
  /\ d \in Disps /\ S.pc[d] = "disp.proc" /\ ~S.loc[d].ok
  /\ S' = [S EXCEPT !.cur = @ - 1, !.loc[d].n = S.cur - 1, !.pc[d] = "rel.enter", !.stk[d] = <<"disp.release">>]
  /\ UNCHANGED H
\* sendToNextChannel: pop an idle node, or create one and its goroutine
D_Node(d) ==
  /\ d \in Disps /\ S.pc[d] = "disp.proc" /\ S.loc[d].ok
  /\ UNCHANGED H
  /\ IF S.idle # <<>>
       THEN S' = [S EXCEPT !.idle = Front(@), !.loc[d].node = Last(S.idle), !.pc[d] = "disp.node"]
       ELSE /\ Unborn(PGSeq) # {}
            /\ \E n \in S.cache \cup (IF Nodes \ S.used = {} THEN {} ELSE {CHOOSE m \in Nodes \ S.used : \A k \in Nodes \ S.used : m <= k}) :
                 LET g == FirstUnborn(PGSeq) IN
                 S' = [S EXCEPT !.pc[g] = "recv", !.loc[g].node = n, !.cache = @ \ {n}, !.used = @ \cup {n},
                                !.loc[d].node = n, !.pc[d] = "node.init"]
D_Send(d) ==
  /\ d \in Disps /\ S.pc[d] \in {"disp.node", "node.init"} /\ Len(S.nch[S.loc[d].node]) < 1
  /\ S' = [S EXCEPT !.nch[S.loc[d].node] = Append(@, S.loc[d].j), !.pc[d] = "disp.sent"]
  /\ UNCHANGED H

-----------------------------------------------------------------------------
(* Pool goroutine g serving node loc[g].node *)

S_Recv(g) ==
  /\ g \in PGs /\ S.pc[g] = "recv" /\ S.nch[S.loc[g].node] # <<>>
  /\ LET x == Head(S.nch[S.loc[g].node]) IN
       S' = IF x = STOP THEN [S EXCEPT !.nch[S.loc[g].node] = Tail(@), !.pc[g] = "dead"]
            ELSE [S EXCEPT !.nch[S.loc[g].node] = Tail(@), !.loc[g].j = x, !.pc[g] = "serve.recv"]
  /\ UNCHANGED H
S_Enter(g) ==
  /\ g \in PGs /\ S.pc[g] = "serve.recv"
  /\ S' = [S EXCEPT !.pc[g] = "wf.enter"]
  /\ H' = [H EXCEPT !.enters[S.loc[g].j] = @ + 1,
                    !.pauseStarts = IF H.epoch = "pause" THEN @ + 1 ELSE @,
                    !.viol = @ \cup (IF H.epoch = "strict" THEN {"C09_NoStart"} ELSE {})
                               \cup (IF S.loc[g].j \in H.cancelNil THEN {"C01_NoCancelled"} ELSE {})
                               \cup (IF S.jst[S.loc[g].j] # "processing" THEN {"C16_InWF"} ELSE {})]
S_Exit(g) ==
  /\ g \in PGs /\ S.pc[g] = "wf.enter"
  /\ S' = [S EXCEPT !.pc[g] = "wf.exit"]
  /\ H' = [H EXCEPT !.exits[S.loc[g].j] = @ + 1,
                    !.viol = @ \cup (IF S.jst[S.loc[g].j] # "processing" THEN {"C16_InWF"} ELSE {})]
\* the wrapper's bookkeeping, then changeStatus(finished)
S_Fin(g) ==
  /\ g \in PGs /\ S.pc[g] = "wf.exit"
  /\ S' = [S EXCEPT !.msucc = @ + 1, !.jst[S.loc[g].j] = "finished", !.pc[g] = "serve.fin"]
  /\ UNCHANGED H
\* j.Close(): markClosed; an error is offered on the error channel (RLock)
S_Close(g) ==
  /\ g \in PGs /\ S.pc[g] = "serve.fin"
  /\ UNCHANGED H
  /\ IF S.jst[S.loc[g].j] \in {"processing", "closed"}
       THEN MxFree /\ S' = [S EXCEPT !.pc[g] = "serve.closed"]
       ELSE S' = [S EXCEPT !.jst[S.loc[g].j] = "closed", !.pc[g] = "jclose.marked"]
S_Done(g) ==
  /\ g \in PGs /\ S.pc[g] = "jclose.marked"
  /\ S' = [S EXCEPT !.jwg[S.loc[g].j] = @ - 1, !.pc[g] = "serve.closed"]
  /\ UNCHANGED H
\* freePoolNode: keep the node, or stop the own goroutine
S_Free(g) ==
  /\ g \in PGs /\ S.pc[g] = "serve.closed"
  /\ LET n == S.loc[g].node IN
       S' = IF Len(S.q) >= S.conc \/ Expiry \/ Len(S.idle) < MinIdle
              THEN [S EXCEPT !.idle = Append(@, n), !.pc[g] = "serve.freed"]
              ELSE [S EXCEPT !.nch[n] = Append(@, STOP), !.cache = @ \cup {n}, !.pc[g] = "serve.freed"]
  /\ UNCHANGED H
S_Dec(g) ==
  /\ g \in PGs /\ S.pc[g] = "serve.freed"
  /\ S' = [S EXCEPT !.cur = @ - 1, !.loc[g].n = S.cur - 1, !.pc[g] = "rel.enter", !.stk[g] = <<"serve.rel">>]
  /\ UNCHANGED H
\* incCompleted; notify; back to the channel
S_Notify(g) ==
  /\ g \in PGs /\ S.pc[g] = "serve.rel" /\ MxFree
  /\ S' = [NotifyS(S) EXCEPT !.mcomp = @ + 1, !.pc[g] = "recv"]
  /\ UNCHANGED H

-----------------------------------------------------------------------------
ClientStep(c) == C_Add(c) \/ C_AddRejected(c) \/ C_AddNotify(c) \/ J_Done(c) \/ C_Close(c) \/ C_Wait(c) \/ C_QClose(c)
                 \/ C_WUF(c) \/ C_Pause(c) \/ C_Resume(c) \/ C_Tune(c) \/ C_Purge(c) \/ C_Stop(c) \/ C_WaitAndStop(c)
                 \/ C_Restart(c) \/ C_CancelCtx(c) \/ C_Nop(c) \/ C_NoHandle(c)
\* steps of sub-procedures that clients and the context listener share
SubStep(p) == I_Wuf(p) \/ W_Cond(p) \/ W_Park(p) \/ W_Wake(p) \/ I_Pause(p) \/ P_Store(p) \/ R_Store(p) \/ R_Notify(p)
              \/ T_After(p) \/ T_Loop(p) \/ T_Stop(p) \/ U_Deq(p) \/ U_Close(p)
              \/ I_Stop(p) \/ I_Stop2(p) \/ S_Chans(p) \/ S_Nodes(p) \/ I_StopAll(p) \/ SA_Stop(p) \/ SP_Fin(p)
              \/ I_Restart(p) \/ I_RsNodes(p) \/ I_Rs2(p) \/ RS_Close(p) \/ RS_New(p) \/ RS_Reset(p) \/ RS_Start(p)
              \/ I_Start(p) \/ ST_Go(p) \/ ST_Go2(p) \/ ST_Push(p) \/ ST_Fin(p) \/ ST_Notify(p)
DispStep(d) == D_Take(d) \/ D_Woken(d) \/ D_Exit(d) \/ D_Check(d) \/ D_Check2(d) \/ D_Reserve(d) \/ D_Recheck(d) \/ D_Deq(d) \/ D_HandOver(d) \/ D_Proc(d) \/ D_Skip(d) \/ D_Node(d) \/ D_Send(d)
               \/ Rel_Eval(d) \/ Rel_Bcast(d)
PoolStep(g) == S_Recv(g) \/ S_Enter(g) \/ S_Exit(g) \/ S_Fin(g) \/ S_Close(g) \/ S_Done(g) \/ S_Free(g) \/ S_Dec(g) \/ S_Notify(g)
               \/ Rel_Eval(g) \/ Rel_Bcast(g)
ReapStep(r) == RP_Tick(r) \/ RP_Len(r) \/ RP_Next(r) \/ RP_Stop(r) \/ RP_Cont(r)
LisStep(x) == X_Fire(x) \/ X_Check(x) \/ SubStep(x)

ProcStep(p) == \/ p \in Clients /\ (ClientStep(p) \/ SubStep(p))
               \/ p \in Disps /\ DispStep(p)
               \/ p \in PGs /\ PoolStep(p)
               \/ p \in Reapers /\ ReapStep(p)
               \/ p \in Listeners /\ LisStep(p)
Next == \E p \in Procs : ProcStep(p)
Internal == \E p \in Procs \ Clients : ProcStep(p)

Spec == Init /\ [][Next]_vars
\* fairness: every goroutine keeps running; the remover's ticks are not forced
Fair == /\ \A p \in Clients \cup Disps \cup PGs \cup Listeners : WF_vars(ProcStep(p))
FairSpec == Spec /\ Fair
=============================================================================
