------------------------------- MODULE VarMQ -------------------------------
(***************************************************************************)
(* Core specification of goptics/varmq (one worker, one queue).            *)
(*                                                                         *)
(* Implementation-shaped: every goroutine of the Go code is a process with *)
(* a program counter; pc values are the labels of the vhook() points of    *)
(* /repo (build tag verif) plus a few internal labels (prefix "i.") where  *)
(* one Go statement sequence is split for modelling convenience.  One      *)
(* action = the code one goroutine executes from one label to the next.    *)
(* A process whose next action is disabled is blocked (channel, mutex,     *)
(* Cond, WaitGroup).                                                       *)
(*                                                                         *)
(* Processes: clients (finite scripts of public API calls, CONSTANT Prog), *)
(* dispatchers ("event loops", one per start()), pool goroutines (one per  *)
(* go node.Serve), the idle-worker remover, the context listener.          *)
(*                                                                         *)
(* w.mx is modelled as a plain mutex: only WaitUntilFinished holds it      *)
(* across labels; every other use (notify, sendError, isEventLoopSignal,   *)
(* Broadcast, closeChannels, ...) lies inside one action, which is then    *)
(* enabled only while nobody holds it.                                     *)
(***************************************************************************)
EXTENDS Integers, Sequences, FiniteSets, TLC

CONSTANTS
  Clients,    \* set of client ids (strings)
  Prog,       \* [Clients -> Seq(op)]; op = [op |-> "Add", job |-> 1] ...
  Jobs,       \* set of job ids (positive ints)
  Prio,       \* [Jobs -> Int]
  QKinds,     \* kinds of the queues in binding order, each "fifo" | "prio" | "pfifo" | "pprio" (the last two: acknowledging
              \* adapter, entries = serialized jobs; adapter configurations have exactly one queue)
  QOf,        \* [Jobs -> 1..Len(QKinds)]: the queue a job is submitted to
  Strategy,   \* "rr" | "max" | "min": how the queue manager chooses among several bound queues
  NoBind,     \* BOOLEAN: the worker starts unbound (Initiated, nothing spawned); queues are bound by "Bind" ops, in order
  Nodes,      \* set of pool node ids (ints)
  DispSeq,    \* dispatcher ids in allocation order, e.g. <<"disp1", "disp2">>
  PGSeq,      \* pool goroutine ids in allocation order, e.g. <<"pg1", "pg2", "pg3">>
  Conc0,      \* initial concurrency
  Ratio,      \* min idle worker ratio (0 = not configured)
  Expiry,     \* BOOLEAN: idle worker expiry configured (remover runs)
  WithCtx,    \* BOOLEAN: worker configured with a context
  MaxGen,     \* bound on Restart generations
  WK,         \* worker kind: "plain" | "err" | "result"
  Outcome,    \* [Jobs -> "ok" | "err" | "panic"]: what the worker function does for the job
  BatchOf,    \* [Jobs -> Nat]: 0 = single job, b > 0 = item of the AddAll batch b
  Faults,     \* adapter calls refused: set of <<"enq"|"deq"|"ack", k>> (the k-th call of that kind, from 0)
  MaxCrash,   \* how many times the process may die (adapter queue kinds only)
  TrackTune   \* BOOLEAN: keep the history needed for C02_TuneBound (it multiplies the state space; on in the tuning configurations)

STOP == 0
NQ == Len(QKinds)
Queues == 1..NQ
QKind == QKinds[1]
Adapter == QKind \in {"pfifo", "pprio"}
Batches == ({BatchOf[j] : j \in Jobs} \cup UNION {{Prog[c][i].n : i \in {k \in DOMAIN Prog[c] : Prog[c][k].op = "AddAll"}} : c \in Clients}) \ {0}
ItemsOf(b) == {j \in Jobs : BatchOf[j] = b}
ReapSeq == [i \in 1..(MaxGen + 1) |-> "reap" \o ToString(i)]      \* one remover / listener per start()
LisSeq == [i \in 1..(MaxGen + 1) |-> "ctx" \o ToString(i)]
SeqRange(s) == {s[i] : i \in DOMAIN s}
Disps == SeqRange(DispSeq)
PGs == SeqRange(PGSeq)
Reapers == SeqRange(ReapSeq)
Listeners == SeqRange(LisSeq)
Procs == Clients \cup Disps \cup PGs \cup Reapers \cup Listeners

VARIABLES
  S,   \* system state: one record (fields below), so that an action names only what it changes
  H    \* history for the properties (never read by the system part; excluded from the VIEW)

(* Fields of S:
   ws        "initiated" | "running" | "paused" | "stopped"
   cur, conc curProcessing, concurrency
   gen       generation of the current signal channel;  chanNil: eventLoopSignal == nil
   sigTok    generation -> 0..1 tokens buffered;  sigClosed: generation -> BOOLEAN
   lc        holder of the lifecycle mutex (Stop / Restart);  sm: holder of the start mutex (start(): check Initiated ... store Running)
   mx        holder of w.mx ("none" or a process);  cond: processes parked in Cond.Wait
   q         queue -> contents Seq(job);  qclosed: queue -> BOOLEAN;  nreg: queues registered with the manager (1..nreg);
   rr        the manager's round-robin cursor (0-based index of the queue to look at next)
   idle      idle list Seq(node);  nch: node -> Seq(payload), capacity 1;  cache: nodes in sync.Pool;  used: nodes created
   bhd       batches whose handle a client holds;  gcount: batch -> WgCounter.count;  gwg: batch -> its WaitGroup;  gclosed: batch -> number of times its stream was closed
   rsent     single jobs whose Response holds an unread value;  rclosed: single jobs whose Response is closed
   unacked   adapter: delivered entries <<ack id, job>> not yet acknowledged;  acked: acknowledged jobs;  nack: ack ids issued;
   calls     adapter calls made so far per kind;  badack: acknowledgements with an id the adapter does not hold;  crashes
   hd        jobs whose handle a client holds (their Add has returned true)
   jst       job -> "created"|"queued"|"processing"|"finished"|"closed";  jwg: job -> WaitGroup counter
   msub, mcomp, msucc, mfail
   ctxGen, ctxCanc   current context generation, cancelled generations
   tick      remover generations whose stop channel is open
   pc        process -> label;  stk: process -> Seq(label);  ip: client -> index of current op;  loc: process -> locals *)

vars == <<S, H>>

Gens == 0..MaxGen
Max(X) == CHOOSE x \in X : \A y \in X : y <= x
Last(s) == s[Len(s)]
Front(s) == SubSeq(s, 1, Len(s) - 1)
Range(s) == {s[i] : i \in DOMAIN s}
NoLoc == [j |-> 0, n |-> 0, k |-> 0, node |-> 0, ok |-> TRUE, g |-> 0, snap |-> <<>>, jobs |-> <<>>, old |-> 0, shrink |-> 0,
          wsnap |-> {}, clean |-> FALSE, solo |-> FALSE, tok |-> 0, cnt |-> 0, res |-> "nil"]

pc == S.pc
Op(c) == Prog[c][S.ip[c]]
HasOp(c) == S.ip[c] <= Len(Prog[c])

\* queue order: fifo appends; prio keeps the sequence sorted by (priority, insertion)
Enq(s, j) ==
  IF QKinds[QOf[j]] \in {"fifo", "pfifo"} THEN Append(s, j)
  ELSE LET k == Cardinality({i \in DOMAIN s : Prio[s[i]] <= Prio[j]})
       IN SubSeq(s, 1, k) \o <<j>> \o SubSeq(s, k + 1, Len(s))

\* Manager.Len(): the sum over the registered queues (jobs can only be in registered queues)
QTotOf(s) == LET F[k \in 0..NQ] == IF k = 0 THEN 0 ELSE F[k - 1] + Len(s.q[k]) IN F[NQ]
QTot == QTotOf(S)
\* queueManager.next(): <<chosen queue (0: ErrAllItemsEmpty / ErrNoItemsRegistered), new round-robin cursor>>
\*  rr : from the cursor on, cyclically, the first non-empty queue; the cursor moves behind it (it ends where it started if all are empty)
\*  max: the first queue of maximal length;  min: the first non-empty queue of minimal length
PickQ(s) ==
  LET n == s.nreg
      ne == {k \in 1..n : Len(s.q[k]) > 0}
  IN IF ne = {} THEN <<0, s.rr>>
     ELSE CASE Strategy = "rr" ->
                 LET vis == [i \in 1..n |-> ((s.rr + i - 1) % n) + 1]
                     i0 == CHOOSE i \in 1..n : vis[i] \in ne /\ \A i2 \in 1..n : vis[i2] \in ne => i <= i2
                 IN <<vis[i0], vis[i0] % n>>
            [] Strategy = "max" ->
                 <<CHOOSE k \in ne : \A k2 \in ne : Len(s.q[k2]) < Len(s.q[k]) \/ (Len(s.q[k2]) = Len(s.q[k]) /\ k <= k2), s.rr>>
            [] OTHER ->
                 <<CHOOSE k \in ne : \A k2 \in ne : Len(s.q[k2]) > Len(s.q[k]) \/ (Len(s.q[k2]) = Len(s.q[k]) /\ k <= k2), s.rr>>
\* the queue an op names (Purge, QClose): its n field, 0 meaning the first queue
QIdx(o) == IF o.n = 0 THEN 1 ELSE o.n
MinIdle == IF Ratio = 0 THEN 1 ELSE Max({(S.conc * Ratio) \div 100, 1})
WaitCond == CASE S.ws = "running" -> QTot > 0 \/ S.cur > 0
              [] S.ws \in {"paused", "stopped"} -> S.cur > 0
              [] OTHER -> FALSE
MxFree == S.mx = "none"
\* the non-blocking send on the current signal channel (callers hold RLock): a dispatcher parked in its
\* range over that channel receives the token directly (the buffer stays empty), else it is buffered, else dropped
Ranging(s) == {d \in Disps : s.pc[d] = "i.range" /\ s.loc[d].g = s.gen /\ s.loc[d].tok = 0}
NotifyS(s) == IF s.chanNil \/ s.sigClosed[s.gen] THEN s
              ELSE IF Ranging(s) # {} THEN [s EXCEPT !.loc[CHOOSE d \in Ranging(s) : TRUE].tok = 1]
              ELSE IF s.sigTok[s.gen] = 0 THEN [s EXCEPT !.sigTok[s.gen] = 1]
              ELSE s

Init ==
  /\ S = [ws |-> IF NoBind THEN "initiated" ELSE "running", cur |-> 0, conc |-> Conc0, gen |-> 0, chanNil |-> FALSE,
          sigTok |-> [g \in Gens |-> IF g = 0 /\ ~NoBind THEN 1 ELSE 0],     \* start()'s deferred notify
          sigClosed |-> [g \in Gens |-> FALSE],
          mx |-> "none", lc |-> "none", sm |-> "none", cond |-> {}, q |-> [k \in Queues |-> <<>>], qclosed |-> [k \in Queues |-> FALSE],
          nreg |-> IF NoBind THEN 0 ELSE NQ, rr |-> 0,
          idle |-> IF NoBind THEN <<>> ELSE <<1>>, nch |-> [n \in Nodes |-> <<>>], cache |-> {}, used |-> IF NoBind THEN {} ELSE {1},
          jst |-> [j \in Jobs |-> "created"], jwg |-> [j \in Jobs |-> 1], hd |-> {}, nohd |-> {}, bhd |-> {},
          gcount |-> [b \in Batches |-> 0], gwg |-> [b \in Batches |-> 0], gclosed |-> [b \in Batches |-> 0], rsent |-> {}, rclosed |-> {},
          unacked |-> {}, acked |-> {}, nack |-> 0, calls |-> [enq |-> 0, deq |-> 0, ack |-> 0], badack |-> 0, crashes |-> 0,
          msub |-> 0, mcomp |-> 0, msucc |-> 0, mfail |-> 0,
          ctxGen |-> 0, ctxCanc |-> {}, pcancel |-> FALSE, tick |-> IF Expiry /\ ~NoBind THEN {0} ELSE {},
          pc |-> [p \in Procs |-> IF p \in Clients THEN "call"
                                  ELSE IF NoBind THEN "unborn"
                                  ELSE IF p = "disp1" THEN "loop.start"
                                  ELSE IF p = "pg1" THEN "recv"
                                  ELSE IF p = "reap1" /\ Expiry THEN "reap.wait"
                                  ELSE IF p = "ctx1" /\ WithCtx THEN "ctx.wait"
                                  ELSE "unborn"],
          stk |-> [p \in Procs |-> <<>>],
          ip |-> [c \in Clients |-> 1],
          loc |-> [p \in Procs |-> IF p = "pg1" /\ ~NoBind THEN [NoLoc EXCEPT !.node = 1] ELSE NoLoc]]
  /\ H = [enters |-> [j \in Jobs |-> 0], exits |-> [j \in Jobs |-> 0], accepted |-> {}, rejected |-> {}, cancelNil |-> {},
          closeStarted |-> {}, purged |-> {}, concMax |-> Conc0, epoch |-> "open", pauseStarts |-> 0, ctl |-> 0, viol |-> {},
          tb |-> [n |-> 0, old |-> {}]]        \* the last TunePool that has returned: its limit, and the jobs that were Processing then

-----------------------------------------------------------------------------
(* Helpers: finishing a client op, returning from a sub-procedure, history *)

CtlOps == {"Pause", "PauseAndWait", "Resume", "Stop", "WaitAndStop", "Restart", "CancelCtx", "Bind"}
Inflight == {j \in Jobs : H.enters[j] > H.exits[j]}
Settled(j) == H.exits[j] >= 1 \/ j \in H.closeStarted \/ j \in H.purged \/ j \in H.rejected

\* the client's current op is complete ("ret"): it parks at the call point of its next op
Fin(s, c) == [s EXCEPT !.ip[c] = @ + 1,
                       !.pc[c] = IF s.ip[c] + 1 <= Len(Prog[c]) THEN "call" ELSE "done",
                       !.stk[c] = <<>>, !.loc[c] = NoLoc]
\* return from a sub-procedure: continue at the label on top of the stack, or finish the op
Pop(s, p) == IF s.stk[p] = <<>> THEN (IF p \in Clients THEN Fin(s, p) ELSE [s EXCEPT !.pc[p] = "dead"]) ELSE [s EXCEPT !.pc[p] = Head(s.stk[p]), !.stk[p] = Tail(@)]
Returns(p) == S.stk[p] = <<>>
\* a control call begins: no pending WaitUntilFinished is "on a running worker" for sure any more
Dirty(s) == [s EXCEPT !.loc = [p \in Procs |-> [s.loc[p] EXCEPT !.clean = FALSE, !.solo = FALSE]]]

Checks(c, res) ==
  LET o == Op(c) IN
    (IF o.op = "WUF" /\ S.loc[c].clean /\ (\E j \in S.loc[c].wsnap : ~Settled(j)) THEN {"C06_WUF"} ELSE {})
    \cup (IF o.op \in {"PauseAndWait", "Stop", "WaitAndStop"} /\ res = "nil" /\ S.loc[c].solo /\ Inflight # {} THEN {"C06_Drained"} ELSE {})
    \cup (IF o.op = "Wait" /\ ~Settled(o.job) THEN {"C05_NotEarly"} ELSE {})
    \cup (IF o.op = "Close" /\ res = "nil" /\ H.enters[o.job] # H.exits[o.job] THEN {"C10_CloseWins"} ELSE {})
    \cup (IF o.op = "Close" /\ o.job \in H.cancelNil /\ res # "ErrJobAlreadyClosed" THEN {"C10_CloseCodes"} ELSE {})

\* history at the return of client c's current op with result res
HFin(c, res) ==
  LET o == Op(c) IN
  [H EXCEPT !.accepted = IF o.op = "Add" /\ res = "ok" THEN @ \cup {o.job} ELSE @,
            !.rejected = IF o.op = "Add" /\ res = "rej" THEN @ \cup {o.job} ELSE @,
            !.cancelNil = IF o.op = "Close" /\ res = "nil" THEN @ \cup {o.job} ELSE @,
            !.ctl = IF o.op \in CtlOps THEN @ - 1 ELSE @,
            !.epoch = IF o.op \in {"PauseAndWait", "Stop", "WaitAndStop"} /\ res = "nil" /\ S.loc[c].solo THEN "strict"
                      ELSE IF o.op = "Pause" /\ res = "nil" /\ S.loc[c].solo /\ H.epoch = "open" /\ S.ws = "paused" THEN "pause"
                      ELSE @,
            !.pauseStarts = IF o.op = "Pause" THEN 0 ELSE @,
            !.viol = @ \cup Checks(c, res)]
\* history when a sub-procedure returns: only if that completes the op
HPop(p, res) == IF Returns(p) /\ p \in Clients THEN HFin(p, res) ELSE H

-----------------------------------------------------------------------------
(* Clients *)

AtCall(c, op) == c \in Clients /\ S.pc[c] = "call" /\ HasOp(c) /\ Op(c).op = op

\* What follows a successful markClosed of job loc[p].j (pc "jclose.marked"), for clients and pool goroutines alike:
\* single job: wg.Done, then (err/result job) Response.Close;  batch item: WgCounter.Done = compare-and-swap of the count,
\* wg.Done, and the one call that took the count to zero closes the batch's stream.  Continuation on the stack.
Ret(s, p) == IF p \in Clients THEN Pop(s, p) ELSE [s EXCEPT !.pc[p] = Head(s.stk[p]), !.stk[p] = Tail(@)]
CT_Marked(p) ==
  /\ S.pc[p] = "jclose.marked"
  /\ LET j == S.loc[p].j  b == BatchOf[j]
         s0 == IF p \in Clients /\ Op(p).op = "Add" THEN [S EXCEPT !.nohd = @ \cup {j}] ELSE S IN
     /\ S' = IF Adapter /\ p \in Clients THEN Ret(s0, p)                       \* a rejected persistent Add closes a local object
             ELSE IF b = 0 THEN (IF WK = "plain" \/ Adapter THEN Ret([s0 EXCEPT !.jwg[j] = @ - 1], p)
                                 ELSE [s0 EXCEPT !.jwg[j] = @ - 1, !.pc[p] = "resp.close"])
             ELSE [s0 EXCEPT !.gcount[b] = @ - 1, !.loc[p].cnt = S.gcount[b], !.pc[p] = "wgc.cas"]
     /\ H' = IF p \in Clients /\ Op(p).op = "AddAll" THEN [H EXCEPT !.rejected = @ \cup {j}]
             ELSE IF p \in Clients /\ S'.pc[p] \in {"call", "done"} THEN HFin(p, IF Op(p).op = "Add" THEN "rej" ELSE "nil")
             ELSE H
CT_Wgc(p) ==
  /\ S.pc[p] = "wgc.cas"
  /\ LET b == BatchOf[S.loc[p].j]  s1 == [S EXCEPT !.gwg[b] = @ - 1] IN
       S' = IF S.loc[p].cnt = 1 /\ WK # "plain" THEN [s1 EXCEPT !.pc[p] = "resp.close"] ELSE Ret(s1, p)
  /\ H' = IF p \in Clients /\ S'.pc[p] \in {"call", "done"} THEN HFin(p, "nil") ELSE H
CT_RespClose(p) ==
  /\ S.pc[p] = "resp.close"
  /\ LET j == S.loc[p].j  b == IF j = 0 THEN 0 ELSE BatchOf[j] IN
       S' = Ret(IF j = 0 THEN [S EXCEPT !.gclosed[S.loc[p].cnt] = @ + 1]
                ELSE IF b = 0 THEN [S EXCEPT !.rclosed = @ \cup {j}] ELSE [S EXCEPT !.gclosed[b] = @ + 1], p)
  /\ H' = IF p \in Clients /\ S'.pc[p] \in {"call", "done"} THEN HFin(p, "nil") ELSE H

\* [changeStatus(queued); Enqueue] of one job (Add, or one item of AddAll)
EnqStep(s, c, j) ==
  IF Adapter
    THEN (IF s.qclosed[QOf[j]] \/ <<"enq", s.calls.enq>> \in Faults
            THEN [s EXCEPT !.calls.enq = @ + 1, !.pc[c] = "add.enq", !.loc[c].ok = FALSE, !.loc[c].j = j]
            ELSE [s EXCEPT !.calls.enq = @ + 1, !.q[QOf[j]] = Enq(@, j), !.pc[c] = "add.enq", !.loc[c].ok = TRUE, !.loc[c].j = j])
  ELSE IF s.qclosed[QOf[j]]
    THEN [s EXCEPT !.jst[j] = "queued", !.pc[c] = "add.enq", !.loc[c].ok = FALSE, !.loc[c].j = j]
    ELSE [s EXCEPT !.jst[j] = "queued", !.q[QOf[j]] = Enq(@, j), !.pc[c] = "add.enq", !.loc[c].ok = TRUE, !.loc[c].j = j]
C_Add(c) ==
  /\ AtCall(c, "Add") /\ QOf[Op(c).job] <= S.nreg
  /\ S' = EnqStep(S, c, Op(c).job)
  /\ UNCHANGED H

\* AddAll: the group (counter = size; the stream of an empty batch is closed at once), then item by item
SeqOfSet(X) == LET F[k \in 0..Cardinality(X)] == IF k = 0 THEN <<>> ELSE LET m == CHOOSE x \in X : Cardinality({y \in X : y < x}) = k - 1 IN Append(F[k - 1], m)
               IN F[Cardinality(X)]
C_AddAll(c) ==
  /\ AtCall(c, "AddAll") /\ \A j \in ItemsOf(Op(c).n) : QOf[j] <= S.nreg
  /\ LET b == Op(c).n  items == SeqOfSet(ItemsOf(b))
         s1 == [S EXCEPT !.gcount[b] = Len(items), !.gwg[b] = Len(items), !.gclosed[b] = 0,
                         !.loc[c].jobs = items, !.loc[c].snap = <<>>, !.pc[c] = "i.addall"] IN
       \* the stream of an empty batch is closed at creation (nobody else would)
       S' = IF Len(items) = 0 /\ WK # "plain" THEN [s1 EXCEPT !.loc[c].j = 0, !.loc[c].cnt = b, !.stk[c] = <<"i.addall">>, !.pc[c] = "resp.close"] ELSE s1
  /\ UNCHANGED H
I_AddAllNext(c) ==
  /\ c \in Clients /\ S.pc[c] = "i.addall"
  /\ IF S.loc[c].jobs = <<>>
       THEN /\ S' = Fin([S EXCEPT !.bhd = @ \cup {Op(c).n}], c)
            /\ H' = [H EXCEPT !.accepted = @ \cup Range(S.loc[c].snap)]
       ELSE /\ S' = [EnqStep(S, c, Head(S.loc[c].jobs)) EXCEPT !.loc[c].jobs = Tail(@), !.stk[c] = <<"i.addall">>]
            /\ UNCHANGED H

\* rejected: j.Close() = markClosed, (hook), then the close effect
C_AddRejected(c) ==
  /\ c \in Clients /\ S.pc[c] = "add.enq" /\ ~S.loc[c].ok
  /\ IF QKinds[QOf[S.loc[c].j]] = "pprio" THEN S' = Fin(S, c) /\ H' = HFin(c, "rej")         \* nothing to close, the job object is local
     ELSE S' = [S EXCEPT !.jst[S.loc[c].j] = IF Adapter THEN @ ELSE "closed", !.pc[c] = "jclose.marked"] /\ UNCHANGED H

\* accepted: incSubmitted, notify (RLock), return (or the next item)
C_AddNotify(c) ==
  /\ c \in Clients /\ S.pc[c] = "add.enq" /\ S.loc[c].ok /\ MxFree
  /\ IF Op(c).op = "AddAll"
       THEN /\ S' = Pop(NotifyS([S EXCEPT !.msub = @ + 1, !.loc[c].snap = Append(@, S.loc[c].j)]), c)
            /\ UNCHANGED H
       ELSE /\ S' = Fin(NotifyS([S EXCEPT !.msub = @ + 1, !.hd = IF Adapter THEN @ ELSE @ \cup {S.loc[c].j}]), c)
            /\ H' = HFin(c, "ok")

\* a submission to a queue that is not bound yet: there is no queue object, nothing is called
C_NoQueue(c) ==
  /\ AtCall(c, "Add") /\ QOf[Op(c).job] > S.nreg
  /\ S' = Fin([S EXCEPT !.nohd = @ \cup {Op(c).job}], c)
  /\ H' = H

\* binding a queue (the first one starts the worker): Register appends to the manager's list, then the deferred start(),
\* which only starts a worker that was never started (or was reset by Restart) - binding never changes any other state
C_Bind(c) ==
  /\ AtCall(c, "Bind") /\ S.nreg < NQ
  /\ S' = [Dirty(S) EXCEPT !.pc[c] = "mgr.register"]
  /\ H' = [H EXCEPT !.ctl = @ + 1]
B_Reg(c) ==
  /\ c \in Clients /\ S.pc[c] = "mgr.register"
  /\ LET s1 == [S EXCEPT !.nreg = @ + 1] IN
       S' = [s1 EXCEPT !.pc[c] = "i.start"] /\ UNCHANGED H        \* the deferred start()

\* an op on the handle of a job whose Add was rejected: there is no handle, nothing is called
C_NoHandle(c) ==
  /\ c \in Clients /\ S.pc[c] = "call" /\ HasOp(c) /\ Op(c).op \in {"Close", "Wait", "Result"}
  /\ Op(c).job \in S.nohd \/ BatchOf[Op(c).job] # 0          \* (the items of a batch have no handles of their own)
  /\ S' = Fin(S, c)
  /\ H' = [H EXCEPT !.ctl = @]

C_Close(c) ==
  /\ AtCall(c, "Close") /\ Op(c).job \in S.hd
  /\ LET j == Op(c).job IN
       CASE S.jst[j] = "processing" -> S' = Fin(S, c) /\ H' = [HFin(c, "ErrJobProcessing") EXCEPT !.closeStarted = @ \cup {j}]
         [] S.jst[j] = "closed" -> S' = Fin(S, c) /\ H' = [HFin(c, "ErrJobAlreadyClosed") EXCEPT !.closeStarted = @ \cup {j}]
         [] OTHER -> /\ S' = [S EXCEPT !.jst[j] = "closed", !.pc[c] = "jclose.marked", !.loc[c].j = j]
                     /\ H' = [H EXCEPT !.closeStarted = @ \cup {j}]

C_Wait(c) ==
  /\ AtCall(c, "Wait") /\ Op(c).job \in S.hd /\ S.jwg[Op(c).job] = 0
  /\ S' = Fin(S, c)
  /\ H' = HFin(c, "nil")

\* read-only calls (Status, NumPending, Metrics, ...) change nothing
C_Nop(c) ==
  /\ AtCall(c, "Nop")
  /\ S' = Fin(S, c)
  /\ H' = H

\* Result()/Err(): a plain worker's handle only waits; otherwise the value sent by the wrapper, or the close
C_Result(c) ==
  /\ AtCall(c, "Result") /\ Op(c).job \in S.hd
  /\ LET j == Op(c).job IN
       IF WK = "plain" THEN S.jwg[j] = 0 /\ S' = Fin(S, c)
       ELSE \/ j \in S.rsent /\ S' = Fin([S EXCEPT !.rsent = @ \ {j}], c)
            \/ j \notin S.rsent /\ j \in S.rclosed /\ S' = Fin(S, c)
  /\ H' = [HFin(c, "nil") EXCEPT !.viol = @ \cup (IF Settled(Op(c).job) THEN {} ELSE {"C05_NotEarly"})]
C_BatchWait(c) ==
  /\ AtCall(c, "BatchWait") /\ Op(c).n \in S.bhd /\ S.gwg[Op(c).n] = 0
  /\ S' = Fin(S, c)
  /\ H' = [HFin(c, "nil") EXCEPT !.viol = @ \cup (IF \A j \in ItemsOf(Op(c).n) : Settled(j) THEN {} ELSE {"C05_BatchNotEarly"})]
\* reading the stream to its end: possible once it is closed (a plain worker's batch has no stream: same as Wait)
C_BatchRead(c) ==
  /\ AtCall(c, "BatchRead") /\ Op(c).n \in S.bhd
  /\ IF WK = "plain" THEN S.gwg[Op(c).n] = 0 ELSE S.gclosed[Op(c).n] >= 1
  /\ S' = Fin(S, c)
  /\ H' = [HFin(c, "nil") EXCEPT !.viol = @ \cup (IF \A j \in ItemsOf(Op(c).n) : Settled(j) THEN {} ELSE {"C05_BatchNotEarly"})]

C_QClose(c) ==
  /\ AtCall(c, "QClose")
  /\ QIdx(Op(c)) <= S.nreg
  /\ S' = Fin([S EXCEPT !.qclosed[QIdx(Op(c))] = TRUE], c)
  /\ H' = HFin(c, "nil")

---- \* WaitUntilFinished (as an op, and as the body of PauseAndWait / Stop / WaitAndStop / Restart)
C_WUF(c) ==
  /\ AtCall(c, "WUF") /\ MxFree
  /\ S' = [S EXCEPT !.mx = c, !.pc[c] = "wuf.locked", !.loc[c].wsnap = H.accepted, !.loc[c].clean = (S.ws = "running" /\ H.ctl = 0)]
  /\ UNCHANGED H
I_Wuf(p) ==
  /\ S.pc[p] = "i.wuf" /\ MxFree
  /\ S' = [S EXCEPT !.mx = p, !.pc[p] = "wuf.locked"]
  /\ UNCHANGED H
W_Cond(p) ==
  /\ S.pc[p] \in {"wuf.locked", "wuf.woken"}
  /\ IF WaitCond THEN S' = [S EXCEPT !.pc[p] = "wuf.wait"] /\ UNCHANGED H
     ELSE S' = Pop([S EXCEPT !.mx = "none"], p) /\ H' = HPop(p, "nil")
W_Park(p) ==
  /\ S.pc[p] = "wuf.wait"
  /\ S' = [S EXCEPT !.cond = @ \cup {p}, !.mx = "none", !.pc[p] = "wuf.cw"]
  /\ UNCHANGED H
W_Wake(p) ==
  /\ S.pc[p] = "wuf.cw" /\ p \notin S.cond /\ MxFree
  /\ S' = [S EXCEPT !.mx = p, !.pc[p] = "wuf.woken"]
  /\ UNCHANGED H

---- \* Pause / PauseAndWait
C_Pause(c) ==
  /\ c \in Clients /\ S.pc[c] = "call" /\ HasOp(c) /\ Op(c).op \in {"Pause", "PauseAndWait"}
  /\ S' = [Dirty(S) EXCEPT !.pc[c] = "i.pause", !.stk[c] = IF Op(c).op = "PauseAndWait" THEN <<"i.wuf">> ELSE <<>>, !.loc[c].solo = (H.ctl = 0)]
  /\ H' = [H EXCEPT !.ctl = @ + 1]
\* Pause(): load the status
I_Pause(p) ==
  /\ S.pc[p] = "i.pause"
  /\ CASE S.ws = "running" -> S' = [S EXCEPT !.pc[p] = "pause.load"] /\ UNCHANGED H
       [] S.ws \in {"paused", "stopped"} -> S' = Pop(S, p) /\ H' = HPop(p, "nil")
       [] OTHER -> \* ErrNotRunningWorker: PauseAndWait returns it without waiting
                   LET s1 == IF S.stk[p] # <<>> /\ Head(S.stk[p]) = "i.wuf" THEN [S EXCEPT !.stk[p] = Tail(@)] ELSE S
                       s2 == IF s1.stk[p] # <<>> /\ Head(s1.stk[p]) \in {"i.stop2", "i.rs.nodes"} THEN [s1 EXCEPT !.stk[p] = <<>>] ELSE s1
                       s3 == [s2 EXCEPT !.lc = IF s2.lc = p THEN "none" ELSE @]
                   IN S' = Pop(s3, p) /\ H' = IF s3.stk[p] = <<>> /\ p \in Clients THEN HFin(p, "ErrNotRunningWorker") ELSE H
\* compare-and-swap running -> paused; the status is read again when it has changed in between
P_Store(p) ==
  /\ S.pc[p] = "pause.load" /\ S.ws = "running"
  /\ S' = Pop([S EXCEPT !.ws = "paused"], p)
  /\ H' = IF Returns(p) /\ p \in Clients THEN [H EXCEPT !.ctl = @ - 1, !.pauseStarts = 0,
                                                          !.epoch = IF S.loc[p].solo /\ H.epoch = "open" THEN "pause" ELSE @]
          ELSE H
P_Retry(p) ==
  /\ S.pc[p] = "pause.load" /\ S.ws # "running"
  /\ S' = [S EXCEPT !.pc[p] = "i.pause"]
  /\ UNCHANGED H

---- \* Resume
C_Resume(c) ==
  /\ AtCall(c, "Resume")
  /\ CASE S.ws = "stopped" -> S' = Fin(Dirty(S), c) /\ H' = [H EXCEPT !.epoch = "open", !.pauseStarts = 0]
       [] S.ws = "initiated" -> S' = [Dirty(S) EXCEPT !.pc[c] = "i.start"] /\ H' = [H EXCEPT !.ctl = @ + 1, !.epoch = "open", !.pauseStarts = 0]
       [] S.ws = "running" -> S' = Fin(Dirty(S), c) /\ H' = [H EXCEPT !.epoch = "open", !.pauseStarts = 0]
       [] OTHER -> S' = [Dirty(S) EXCEPT !.pc[c] = "resume.check"] /\ H' = [H EXCEPT !.ctl = @ + 1, !.epoch = "open", !.pauseStarts = 0]
\* compare-and-swap paused -> running; Resume starts over when the status has changed in between
R_Store(p) ==
  /\ S.pc[p] = "resume.check" /\ S.ws = "paused"
  /\ S' = [S EXCEPT !.ws = "running", !.pc[p] = "resume.stored"]
  /\ UNCHANGED H
R_Retry(p) ==
  /\ S.pc[p] = "resume.check" /\ S.ws # "paused"
  /\ S' = [S EXCEPT !.pc[p] = "i.resume"]
  /\ UNCHANGED H
I_Resume(p) ==
  /\ S.pc[p] = "i.resume"
  /\ CASE S.ws = "stopped" -> S' = Fin(S, p) /\ H' = HFin(p, "ErrNotRunningWorker")
       [] S.ws = "initiated" -> S' = [S EXCEPT !.pc[p] = "i.start"] /\ UNCHANGED H
       [] S.ws = "running" -> S' = Fin(S, p) /\ H' = HFin(p, "ErrRunningWorker")
       [] OTHER -> S' = [S EXCEPT !.pc[p] = "resume.check"] /\ UNCHANGED H
R_Notify(p) ==
  /\ S.pc[p] = "resume.stored" /\ MxFree
  /\ S' = Fin(NotifyS(S), p)
  /\ H' = HFin(p, "nil")

---- \* TunePool
C_Tune(c) ==
  /\ AtCall(c, "TunePool")
  /\ S' = IF S.ws # "running" THEN Fin(S, c) ELSE [S EXCEPT !.pc[c] = "tune.checked"]
  /\ UNCHANGED H
T_Store(p) ==
  /\ S.pc[p] = "tune.checked"
  /\ LET n == Op(p).n IN
       IF S.conc = n THEN S' = Fin(S, p) /\ UNCHANGED H
       ELSE /\ S' = [S EXCEPT !.conc = n, !.loc[p].old = S.conc, !.loc[p].n = n, !.pc[p] = "tune.stored"]
            /\ H' = [H EXCEPT !.concMax = Max({@, n})]
\* the jobs dispatched before TunePool returns: Processing, or in a dispatcher's hands; a dispatcher that holds a slot without a job
\* yet makes the set uncertain (n = 0: nothing is claimed for this TunePool)
TuneRet(p) == IF TrackTune /\ S'.pc[p] \in {"call", "done"}
                THEN [H EXCEPT !.tb = [n |-> IF \E d \in Disps : S.pc[d] \in {"disp.reserve", "i.disp.lock"} THEN 0 ELSE S.loc[p].n,
                                       old |-> {j \in Jobs : S.jst[j] = "processing"}
                                               \cup ({S.loc[d].j : d \in {x \in Disps : S.pc[x] \in {"disp.deq", "disp.proc", "disp.node", "node.init"}}} \ {0})]]
                ELSE H
T_After(p) ==
  /\ S.pc[p] = "tune.stored"
  /\ IF S.loc[p].n > S.loc[p].old THEN MxFree /\ S' = Fin(NotifyS(S), p)
     ELSE IF Expiry THEN S' = Fin(S, p)
     ELSE S' = [S EXCEPT !.loc[p].shrink = S.loc[p].old - S.loc[p].n, !.pc[p] = "i.tune.loop"]
  /\ H' = TuneRet(p)
T_Loop(p) ==
  /\ S.pc[p] = "i.tune.loop"
  /\ IF S.loc[p].shrink > 0 /\ Len(S.idle) > MinIdle /\ S.idle # <<>>
       THEN S' = [S EXCEPT !.idle = Front(@), !.loc[p].node = Last(S.idle), !.loc[p].shrink = @ - 1, !.pc[p] = "tune.popped"]
       ELSE S' = Fin(S, p)
  /\ H' = TuneRet(p)
T_Stop(p) ==
  /\ S.pc[p] = "tune.popped" /\ Len(S.nch[S.loc[p].node]) < 1
  /\ S' = [S EXCEPT !.nch[S.loc[p].node] = Append(@, STOP), !.cache = @ \cup {S.loc[p].node}, !.pc[p] = "i.tune.loop"]
  /\ UNCHANGED H

---- \* Purge of an in-memory queue: dequeue at most Len() jobs, closing each
C_Purge(c) ==
  /\ AtCall(c, "Purge") /\ QIdx(Op(c)) <= S.nreg
  /\ S' = [S EXCEPT !.loc[c].n = Len(S.q[QIdx(Op(c))]), !.loc[c].k = QIdx(Op(c)), !.pc[c] = "i.purge.loop"]
  /\ UNCHANGED H
U_Deq(p) ==
  /\ S.pc[p] = "i.purge.loop"
  /\ IF S.loc[p].n = 0 THEN S' = Fin(S, p) /\ H' = HFin(p, "nil")
     ELSE IF S.q[S.loc[p].k] = <<>> THEN S' = [S EXCEPT !.loc[p].ok = FALSE, !.pc[p] = "purge.deq"] /\ UNCHANGED H
     ELSE /\ S' = [S EXCEPT !.loc[p].j = Head(S.q[S.loc[p].k]), !.q[S.loc[p].k] = Tail(@), !.loc[p].n = @ - 1, !.loc[p].ok = TRUE, !.pc[p] = "purge.deq"]
          /\ H' = [H EXCEPT !.purged = @ \cup {Head(S.q[S.loc[p].k])}]
U_Close(p) ==
  /\ S.pc[p] = "purge.deq"
  /\ IF ~S.loc[p].ok THEN S' = Fin(S, p) /\ H' = HFin(p, "nil")
     ELSE /\ UNCHANGED H
          /\ IF S.jst[S.loc[p].j] \in {"processing", "closed"}
               THEN S' = [S EXCEPT !.pc[p] = "i.purge.loop"]
               ELSE S' = [S EXCEPT !.jst[S.loc[p].j] = "closed", !.pc[p] = "jclose.marked", !.stk[p] = <<"i.purge.loop">>]

---- \* Stop / WaitAndStop (any process: clients and the context listener)
C_Stop(c) ==
  /\ AtCall(c, "Stop")
  /\ S' = [Dirty(S) EXCEPT !.pc[c] = "i.stop", !.loc[c].solo = (H.ctl = 0)]
  /\ H' = [H EXCEPT !.ctl = @ + 1]
C_WaitAndStop(c) ==
  /\ AtCall(c, "WaitAndStop")
  /\ S' = [Dirty(S) EXCEPT !.pc[c] = "i.wuf", !.stk[c] = <<"i.stop">>, !.loc[c].solo = (H.ctl = 0)]
  /\ H' = [H EXCEPT !.ctl = @ + 1]
\* Stop(): the switch on the status
I_Stop(p) ==
  /\ S.pc[p] = "i.stop" /\ S.lc = "none"
  /\ S' = [S EXCEPT !.lc = p, !.loc[p].res = "stop", !.pc[p] = "lifecycle.locked"]
  /\ UNCHANGED H
\* under the lifecycle mutex: (listener: is my context still the worker's?) then the switch on the status
LC_Switch(p) ==
  /\ S.pc[p] = "lifecycle.locked"
  /\ p \in Listeners => MxFree
  /\ LET rel == [S EXCEPT !.lc = "none"] IN
     IF S.loc[p].res = "stop" THEN
       IF p \in Listeners /\ S.ctxGen # S.loc[p].g THEN S' = [rel EXCEPT !.pc[p] = "dead"] /\ H' = [H EXCEPT !.ctl = @ - 1]
       ELSE CASE S.ws = "stopped" -> S' = Pop(rel, p) /\ H' = HPop(p, "nil")
              [] S.ws = "running" -> S' = [S EXCEPT !.pc[p] = "i.pause", !.stk[p] = <<"i.wuf", "i.stop2">> \o @] /\ UNCHANGED H
              [] S.ws = "paused" -> S' = [S EXCEPT !.pc[p] = "i.wuf", !.stk[p] = <<"i.stop2">> \o @] /\ UNCHANGED H
              [] OTHER -> S' = Pop(rel, p) /\ H' = HPop(p, "ErrNotRunningWorker")
     ELSE /\ UNCHANGED H
          /\ CASE S.ws = "running" -> S' = [S EXCEPT !.pc[p] = "i.pause", !.stk[p] = <<"i.wuf", "i.rs.nodes", "i.rs2">>]
               [] S.ws = "paused" -> S' = [S EXCEPT !.pc[p] = "i.wuf", !.stk[p] = <<"i.rs.nodes", "i.rs2">>]
               [] OTHER -> S' = [S EXCEPT !.pc[p] = "i.rs2"]
I_Stop2(p) ==
  /\ S.pc[p] = "i.stop2"
  /\ S' = [S EXCEPT !.pc[p] = "stop.waited"]
  /\ UNCHANGED H
\* read cancel (RLock), stopTickers (Lock), closeChannels (Lock)
CloseChans(s) == IF s.chanNil THEN s ELSE [s EXCEPT !.sigClosed[s.gen] = TRUE, !.chanNil = TRUE]
S_Chans(p) ==
  /\ S.pc[p] = "stop.waited" /\ MxFree
  /\ S' = [CloseChans(S) EXCEPT !.tick = {}, !.loc[p].g = S.ctxGen, !.pc[p] = "stop.chans"]
  /\ UNCHANGED H
S_Nodes(p) ==
  /\ S.pc[p] = "stop.chans"
  /\ S' = [S EXCEPT !.loc[p].snap = S.idle, !.pc[p] = "i.stopall", !.stk[p] = <<"stop.nodes">> \o @]
  /\ UNCHANGED H
\* stopAndRemoveAllWorkers: for every node of the snapshot, act only if this call unlinked it
I_StopAll(p) ==
  /\ S.pc[p] = "i.stopall"
  /\ UNCHANGED H
  /\ IF S.loc[p].snap = <<>> THEN S' = Pop(S, p)
     ELSE LET n == Head(S.loc[p].snap) IN
          IF n \in Range(S.idle)
            THEN S' = [S EXCEPT !.idle = SelectSeq(@, LAMBDA x : x # n), !.loc[p].snap = Tail(@), !.loc[p].node = n, !.pc[p] = "stopall.removed"]
            ELSE S' = [S EXCEPT !.loc[p].snap = Tail(@)]
SA_Stop(p) ==
  /\ S.pc[p] = "stopall.removed" /\ Len(S.nch[S.loc[p].node]) < 1
  /\ S' = [S EXCEPT !.nch[S.loc[p].node] = Append(@, STOP), !.cache = @ \cup {S.loc[p].node}, !.pc[p] = "i.stopall"]
  /\ UNCHANGED H
\* deferred: status.Store(stopped); cancel()
\* deferred: status.Store(stopped); releaseWaiters(curProcessing); cancel(); lifecycleMx.Unlock()
SP_Fin(p) ==
  /\ S.pc[p] = "stop.nodes"
  /\ S' = [S EXCEPT !.ws = "stopped", !.loc[p].n = S.cur, !.pc[p] = "rel.enter", !.stk[p] = <<"i.stop.fin">> \o @]
  /\ UNCHANGED H
SP_Fin2(p) ==
  /\ S.pc[p] = "i.stop.fin"
  /\ S' = Pop([S EXCEPT !.lc = "none", !.ctxCanc = IF WithCtx THEN @ \cup {S.loc[p].g} ELSE @], p)
  /\ H' = HPop(p, "nil")

---- \* Restart and start()
C_Restart(c) ==
  /\ AtCall(c, "Restart") /\ S.gen < MaxGen
  /\ S' = [Dirty(S) EXCEPT !.pc[c] = "i.restart"]
  /\ H' = [H EXCEPT !.ctl = @ + 1, !.epoch = "open", !.pauseStarts = 0]
I_Restart(p) ==
  /\ S.pc[p] = "i.restart" /\ S.lc = "none"
  /\ S' = [S EXCEPT !.lc = p, !.loc[p].res = "restart", !.pc[p] = "lifecycle.locked"]
  /\ UNCHANGED H
I_RsNodes(p) ==
  /\ S.pc[p] = "i.rs.nodes"
  /\ S' = [S EXCEPT !.loc[p].snap = S.idle, !.pc[p] = "i.stopall"]
  /\ UNCHANGED H
I_Rs2(p) ==
  /\ S.pc[p] = "i.rs2"
  /\ S' = [S EXCEPT !.pc[p] = "restart.waited", !.stk[p] = <<>>]
  /\ UNCHANGED H
RS_Close(p) ==
  /\ S.pc[p] = "restart.waited" /\ MxFree
  /\ S' = [CloseChans(S) EXCEPT !.tick = {}, !.pc[p] = "restart.closed"]
  /\ UNCHANGED H
RS_New(p) ==
  /\ S.pc[p] = "restart.closed" /\ MxFree /\ S.gen < MaxGen
  /\ S' = [S EXCEPT !.gen = @ + 1, !.chanNil = FALSE, !.sigTok[S.gen + 1] = 0,
                    !.ctxCanc = IF WithCtx THEN @ \cup {S.ctxGen} ELSE @, !.ctxGen = IF WithCtx THEN @ + 1 ELSE @,
                    !.pc[p] = "restart.newchans"]
  /\ UNCHANGED H
RS_Reset(p) ==
  /\ S.pc[p] = "restart.newchans"
  /\ S' = [S EXCEPT !.ws = "initiated", !.pc[p] = "restart.reset"]
  /\ UNCHANGED H
RS_Start(p) ==
  /\ S.pc[p] = "restart.reset"
  /\ S' = [S EXCEPT !.pc[p] = "i.start"]
  /\ UNCHANGED H
I_Start(p) ==
  /\ S.pc[p] = "i.start" /\ S.sm = "none"
  /\ IF S.ws # "initiated" THEN S' = Pop([S EXCEPT !.lc = IF S.lc = p THEN "none" ELSE @], p) /\ H' = HPop(p, "ErrRunningWorker")
     ELSE S' = [S EXCEPT !.sm = p, !.pc[p] = "start.enter"] /\ UNCHANGED H
\* goEventLoop, goRemoveIdleWorkers, goListenToContext, initPoolNode (Cache.Get: a cached node or a new one)
Unborn(sq) == {i \in DOMAIN sq : S.pc[sq[i]] = "unborn"}
FirstUnborn(sq) == sq[CHOOSE i \in Unborn(sq) : \A k \in Unborn(sq) : i <= k]   \* ids are allocated in order
\* goEventLoop: the new dispatcher exists from here on
ST_Go(p) ==
  /\ S.pc[p] = "start.enter"
  /\ Unborn(DispSeq) # {}
  /\ LET d == FirstUnborn(DispSeq) IN
       S' = [S EXCEPT !.pc[d] = "loop.start", !.loc[d].g = S.gen, !.pc[p] = "i.start.2"]
  /\ UNCHANGED H
\* goRemoveIdleWorkers (appends its ticker under w.mx), goListenToContext, initPoolNode
ST_Go2(p) ==
  /\ S.pc[p] = "i.start.2" /\ (Expiry => MxFree)
  /\ Unborn(PGSeq) # {}
  /\ Expiry => Unborn(ReapSeq) # {}
  /\ \E n \in S.cache \cup (IF Nodes \ S.used = {} THEN {} ELSE {CHOOSE m \in Nodes \ S.used : \A k \in Nodes \ S.used : m <= k}) :
       LET g == FirstUnborn(PGSeq)
           s1 == [S EXCEPT !.pc[g] = "recv", !.loc[g].node = n,
                           !.cache = @ \ {n}, !.used = @ \cup {n},
                           !.loc[p].node = n, !.pc[p] = "node.init"]
           s2 == IF Expiry THEN [s1 EXCEPT !.pc[FirstUnborn(ReapSeq)] = "reap.wait", !.loc[FirstUnborn(ReapSeq)].g = S.gen, !.tick = @ \cup {S.gen}] ELSE s1
       IN S' = s2
  /\ UNCHANGED H
ST_Push(p) ==
  /\ S.pc[p] = "node.init" /\ p \notin Disps
  /\ S' = [S EXCEPT !.idle = Append(@, S.loc[p].node), !.pc[p] = "start.node"]
  /\ UNCHANGED H
\* deferred: status.Store(running); goListenToContext ...
ST_Fin(p) ==
  /\ S.pc[p] = "start.node"
  /\ WithCtx => Unborn(LisSeq) # {}
  /\ S' = IF WithCtx THEN [S EXCEPT !.ws = "running", !.pc[p] = "i.start.notify",
                                    !.pc[FirstUnborn(LisSeq)] = "ctx.wait", !.loc[FirstUnborn(LisSeq)].g = S.ctxGen]
          ELSE [S EXCEPT !.ws = "running", !.pc[p] = "i.start.notify"]
  /\ UNCHANGED H
\* ... then notify (RLock)
ST_Notify(p) ==
  /\ S.pc[p] = "i.start.notify" /\ MxFree
  /\ LET s1 == NotifyS(S) IN
       S' = Pop([s1 EXCEPT !.lc = IF s1.lc = p THEN "none" ELSE @, !.sm = "none"], p)
  /\ H' = HPop(p, "nil")

---- \* cancelling the user's context (client op) and the context listener
CtxDone(g) == g \in S.ctxCanc \/ S.pcancel
C_CancelCtx(c) ==
  /\ AtCall(c, "CancelCtx")
  /\ S' = Fin([Dirty(S) EXCEPT !.pcancel = TRUE], c)
  /\ H' = H
X_Fire(x) ==
  /\ x \in Listeners /\ S.pc[x] = "ctx.wait" /\ CtxDone(S.loc[x].g)
  /\ S' = [S EXCEPT !.pc[x] = "ctx.fired"]
  /\ UNCHANGED H
\* stop(c): the listener takes the lifecycle mutex like any Stop; whether its context is still current is decided under it
X_Check(x) ==
  /\ x \in Listeners /\ S.pc[x] = "ctx.fired" /\ S.lc = "none"
  /\ S' = [Dirty(S) EXCEPT !.lc = x, !.loc[x].res = "stop", !.pc[x] = "lifecycle.locked"]
  /\ H' = [H EXCEPT !.ctl = @ + 1]

---- \* idle-worker remover
RP_Tick(r) ==
  /\ r \in Reapers /\ S.pc[r] = "reap.wait"
  /\ \/ S.loc[r].g \in S.tick /\ S' = [S EXCEPT !.pc[r] = "reap.tick"]
     \/ S.loc[r].g \notin S.tick /\ S' = [S EXCEPT !.pc[r] = "dead"]
     \* the select may still pick one tick that was buffered before the ticker was stopped
     \/ S.loc[r].g \notin S.tick /\ S.loc[r].ok /\ S' = [S EXCEPT !.loc[r].ok = FALSE, !.pc[r] = "reap.tick"]
  /\ UNCHANGED H
RP_Len(r) ==
  /\ r \in Reapers /\ S.pc[r] = "reap.tick"
  /\ S' = IF Len(S.idle) <= MinIdle THEN [S EXCEPT !.pc[r] = "reap.wait"]
          ELSE [S EXCEPT !.loc[r].snap = SubSeq(S.idle, MinIdle + 1, Len(S.idle)), !.pc[r] = "reap.snap"]
  /\ UNCHANGED H
\* per node of the snapshot: expired (nondeterministic) and unlinked by this call => stop it
RP_Next(r) ==
  /\ r \in Reapers /\ S.pc[r] \in {"reap.snap", "i.reap.next"}
  /\ UNCHANGED H
  /\ IF S.loc[r].snap = <<>> THEN S' = [S EXCEPT !.pc[r] = "reap.wait"]
     ELSE LET n == Head(S.loc[r].snap) IN
          \/ S' = [S EXCEPT !.loc[r].snap = Tail(@), !.pc[r] = "i.reap.next"]      \* not expired, or no longer linked
          \/ /\ n \in Range(S.idle)
             /\ S' = [S EXCEPT !.idle = SelectSeq(@, LAMBDA x : x # n), !.loc[r].snap = Tail(@), !.loc[r].node = n, !.pc[r] = "reap.removed"]
RP_Stop(r) ==
  /\ r \in Reapers /\ S.pc[r] = "reap.removed" /\ Len(S.nch[S.loc[r].node]) < 1
  /\ S' = [S EXCEPT !.nch[S.loc[r].node] = Append(@, STOP), !.cache = @ \cup {S.loc[r].node}, !.pc[r] = "reap.stopped"]
  /\ UNCHANGED H
RP_Cont(r) ==
  /\ r \in Reapers /\ S.pc[r] = "reap.stopped"
  /\ S' = [S EXCEPT !.pc[r] = "i.reap.next"]
  /\ UNCHANGED H

-----------------------------------------------------------------------------
(* releaseWaiters(processing): shared by the dispatcher and the pool goroutines.
   loc.n = the value passed; the label to continue at is on top of the stack. *)
Rel_Eval(p) ==
  /\ S.pc[p] = "rel.enter"
  /\ S' = IF S.loc[p].n = 0 /\ (S.ws \in {"paused", "stopped"} \/ (S.ws = "running" /\ QTot = 0))
            THEN [S EXCEPT !.pc[p] = "rel.bcast"]
            ELSE [S EXCEPT !.pc[p] = Head(S.stk[p]), !.stk[p] = Tail(@)]
  /\ UNCHANGED H
Rel_Bcast(p) ==
  /\ S.pc[p] = "rel.bcast" /\ MxFree
  /\ S' = [S EXCEPT !.cond = {}, !.pc[p] = Head(S.stk[p]), !.stk[p] = Tail(@)]
  /\ UNCHANGED H

-----------------------------------------------------------------------------
(* Dispatcher ("event loop") d; loc[d].g is the generation of the channel it captured *)

MayDispatch(d) == S.ws = "running" /\ ~S.chanNil /\ S.gen = S.loc[d].g
\* for range signal: take a buffered token, leave when the channel is closed and empty, else park in the receive
D_Take(d) ==
  /\ d \in Disps /\ S.pc[d] \in {"loop.start", "loop.idle"}
  /\ S' = IF S.sigTok[S.loc[d].g] = 1 THEN [S EXCEPT !.sigTok[S.loc[d].g] = 0, !.pc[d] = "loop.wake"]
          ELSE IF S.sigClosed[S.loc[d].g] THEN [S EXCEPT !.pc[d] = "loop.exit"]
          ELSE [S EXCEPT !.pc[d] = "i.range"]
  /\ UNCHANGED H
\* parked in the receive: woken by a token handed over, a buffered token, or the close
D_Woken(d) ==
  /\ d \in Disps /\ S.pc[d] = "i.range"
  /\ \/ S.loc[d].tok = 1 /\ S' = [S EXCEPT !.loc[d].tok = 0, !.pc[d] = "loop.wake"]
     \/ S.loc[d].tok = 0 /\ S.sigTok[S.loc[d].g] = 1 /\ S' = [S EXCEPT !.sigTok[S.loc[d].g] = 0, !.pc[d] = "loop.wake"]
     \/ S.loc[d].tok = 0 /\ S.sigTok[S.loc[d].g] = 0 /\ S.sigClosed[S.loc[d].g] /\ S' = [S EXCEPT !.pc[d] = "loop.exit"]
  /\ UNCHANGED H
D_Exit(d) ==
  /\ d \in Disps /\ S.pc[d] = "loop.exit"
  /\ S' = [S EXCEPT !.pc[d] = "dead"]
  /\ UNCHANGED H
\* the inner loop's condition: IsRunning() first; only then isEventLoopSignal (RLock), curProcessing, Len;
\* false: releaseWaiters(curProcessing.Load()) and back to the range
D_Check(d) ==
  /\ d \in Disps /\ S.pc[d] \in {"loop.wake", "disp.sent", "disp.release", "i.loop"}
  /\ S.pc[d] = "disp.release" => S.loc[d].res # "handover"
  /\ S' = IF S.ws = "running" THEN [S EXCEPT !.pc[d] = "i.loop.lock"]
          ELSE [S EXCEPT !.loc[d].n = S.cur, !.pc[d] = "rel.enter", !.stk[d] = <<"loop.idle">>]
  /\ UNCHANGED H
D_Check2(d) ==
  /\ d \in Disps /\ S.pc[d] = "i.loop.lock" /\ MxFree
  /\ S' = IF ~S.chanNil /\ S.gen = S.loc[d].g /\ S.cur < S.conc /\ QTot > 0
            THEN [S EXCEPT !.pc[d] = "loop.pass"]
            ELSE [S EXCEPT !.loc[d].n = S.cur, !.pc[d] = "rel.enter", !.stk[d] = <<"loop.idle">>]
  /\ UNCHANGED H
\* the slot is taken by compare-and-swap, never above the limit
D_Reserve(d) ==
  /\ d \in Disps /\ S.pc[d] = "loop.pass"
  /\ S' = IF S.cur < S.conc THEN [S EXCEPT !.cur = @ + 1, !.pc[d] = "disp.reserve"] ELSE [S EXCEPT !.pc[d] = "i.loop"]
  /\ UNCHANGED H
\* re-check after reserving (IsRunning() first, then isEventLoopSignal under RLock); next()+Dequeue;
\* on any failure the slot is given back (deferred); a dispatch that backs out because its loop may not
\* dispatch any more signals the current loop afterwards
BackOut(d, why) == [S EXCEPT !.cur = @ - 1, !.loc[d].n = S.cur - 1, !.pc[d] = "rel.enter", !.stk[d] = <<"disp.release">>, !.loc[d].res = why]
D_Recheck(d) ==
  /\ d \in Disps /\ S.pc[d] = "disp.reserve"
  /\ S' = IF S.ws = "running" THEN [S EXCEPT !.pc[d] = "i.disp.lock"] ELSE BackOut(d, "handover")
  /\ UNCHANGED H
D_Deq(d) ==
  /\ d \in Disps /\ S.pc[d] = "i.disp.lock" /\ MxFree
  /\ S' = IF S.chanNil \/ S.gen # S.loc[d].g THEN BackOut(d, "handover")
          \* next(): every registered queue is empty (somebody else took the job): ErrGetNextQueue, the slot is given back at once
          ELSE IF PickQ(S)[1] = 0 THEN BackOut(d, "nil")
          \* the adapter refuses: Dequeue reports failure (loc.j = 0)
          ELSE IF Adapter /\ <<"deq", S.calls.deq>> \in Faults THEN [S EXCEPT !.loc[d].j = 0, !.calls.deq = @ + 1, !.pc[d] = "disp.deq"]
          ELSE LET k == PickQ(S)[1]  j == Head(S.q[k]) IN
            IF Adapter
            THEN \* DequeueWithAckId: the entry stays with the adapter as delivered-unacknowledged; the parsed job is a new object
                 [S EXCEPT !.loc[d].j = j, !.q[k] = Tail(@), !.rr = PickQ(S)[2], !.calls.deq = @ + 1, !.nack = @ + 1,
                           !.unacked = @ \cup {<<S.nack + 1, j>>}, !.loc[d].old = S.nack + 1,
                           !.jst[j] = "created", !.jwg[j] = 1, !.pc[d] = "disp.deq"]
            ELSE [S EXCEPT !.loc[d].j = j, !.q[k] = Tail(@), !.rr = PickQ(S)[2], !.loc[d].k = k, !.pc[d] = "disp.deq"]
  /\ UNCHANGED H
D_HandOver(d) ==
  /\ d \in Disps /\ S.pc[d] = "disp.release" /\ S.loc[d].res = "handover" /\ MxFree
  /\ S' = [NotifyS(S) EXCEPT !.loc[d].res = "nil", !.pc[d] = "i.loop"]
  /\ UNCHANGED H
\* startProcessing: compare-and-swap to Processing unless Closed
D_Proc(d) ==
  /\ d \in Disps /\ S.pc[d] = "disp.deq"
  /\ S' = IF S.loc[d].j = 0 THEN BackOut(d, "nil")         \* ErrFailedToDequeue
          ELSE IF S.jst[S.loc[d].j] = "closed"
            THEN [S EXCEPT !.loc[d].ok = FALSE, !.pc[d] = "disp.proc"]
            ELSE [S EXCEPT !.jst[S.loc[d].j] = "processing", !.loc[d].ok = TRUE, !.pc[d] = "disp.proc"]
  /\ UNCHANGED H
D_Skip(d) ==
  /\ d \in Disps /\ S.pc[d] = "disp.proc" /\ ~S.loc[d].ok
  /\ S' = [S EXCEPT !.cur = @ - 1, !.loc[d].n = S.cur - 1, !.pc[d] = "rel.enter", !.stk[d] = <<"disp.release">>]
  /\ UNCHANGED H
\* sendToNextChannel: pop an idle node, or create one and its goroutine
D_Node(d) ==
  /\ d \in Disps /\ S.pc[d] = "disp.proc" /\ S.loc[d].ok
  /\ UNCHANGED H
  /\ IF S.idle # <<>>
       THEN S' = [S EXCEPT !.idle = Front(@), !.loc[d].node = Last(S.idle), !.pc[d] = "disp.node"]
       ELSE /\ Unborn(PGSeq) # {}
            /\ \E n \in S.cache \cup (IF Nodes \ S.used = {} THEN {} ELSE {CHOOSE m \in Nodes \ S.used : \A k \in Nodes \ S.used : m <= k}) :
                 LET g == FirstUnborn(PGSeq) IN
                 S' = [S EXCEPT !.pc[g] = "recv", !.loc[g].node = n, !.cache = @ \ {n}, !.used = @ \cup {n},
                                !.loc[d].node = n, !.pc[d] = "node.init"]
D_Send(d) ==
  /\ d \in Disps /\ S.pc[d] \in {"disp.node", "node.init"} /\ Len(S.nch[S.loc[d].node]) < 1
  /\ S' = [S EXCEPT !.nch[S.loc[d].node] = Append(@, S.loc[d].j), !.pc[d] = "disp.sent"]
  /\ UNCHANGED H

-----------------------------------------------------------------------------
(* Pool goroutine g serving node loc[g].node *)

S_Recv(g) ==
  /\ g \in PGs /\ S.pc[g] = "recv" /\ S.nch[S.loc[g].node] # <<>>
  /\ LET x == Head(S.nch[S.loc[g].node]) IN
       S' = IF x = STOP THEN [S EXCEPT !.nch[S.loc[g].node] = Tail(@), !.pc[g] = "dead"]
            ELSE [S EXCEPT !.nch[S.loc[g].node] = Tail(@), !.loc[g].j = x, !.pc[g] = "serve.recv"]
  /\ UNCHANGED H
S_Enter(g) ==
  /\ g \in PGs /\ S.pc[g] = "serve.recv"
  /\ S' = [S EXCEPT !.pc[g] = "wf.enter"]
  /\ H' = [H EXCEPT !.enters[S.loc[g].j] = @ + 1,
                    !.pauseStarts = IF H.epoch = "pause" THEN @ + 1 ELSE @,
                    !.viol = @ \cup (IF H.epoch = "strict" THEN {"C09_NoStart"} ELSE {})
                               \cup (IF S.loc[g].j \in H.cancelNil THEN {"C01_NoCancelled"} ELSE {})
                               \cup (IF S.jst[S.loc[g].j] # "processing" THEN {"C16_InWF"} ELSE {})]
S_Exit(g) ==
  /\ g \in PGs /\ S.pc[g] = "wf.enter"
  /\ S' = [S EXCEPT !.pc[g] = "wf.exit"]
  /\ H' = [H EXCEPT !.exits[S.loc[g].j] = @ + 1,
                    !.viol = @ \cup (IF S.jst[S.loc[g].j] # "processing" THEN {"C16_InWF"} ELSE {})]
\* the wrapper around the worker function.  A result is sent to the Response of the job (or of its batch) right after the function
\* returned; then the wrapper has the outcome ("wrap.ret"); an error or panic is sent to the Response after that; then the metrics.
\* Response.Send stores the value (label "resp.stored"), then puts it into the channel, where a Result()/Err() caller takes it at once.
Failed(j) == Outcome[j] = "panic" \/ (Outcome[j] = "err" /\ WK # "plain")
S_Store1(g) ==
  /\ g \in PGs /\ S.pc[g] = "wf.exit" /\ WK = "result" /\ ~Failed(S.loc[g].j)
  /\ S' = [S EXCEPT !.pc[g] = "resp.stored", !.loc[g].res = "result"]
  /\ UNCHANGED H
S_Ret(g) ==
  /\ g \in PGs
  /\ \/ S.pc[g] = "wf.exit" /\ ~(WK = "result" /\ ~Failed(S.loc[g].j)) /\ S' = [S EXCEPT !.pc[g] = "wrap.ret"]
     \/ S.pc[g] = "resp.stored" /\ S.loc[g].res = "result"
          /\ S' = [S EXCEPT !.rsent = IF BatchOf[S.loc[g].j] = 0 THEN @ \cup {S.loc[g].j} ELSE @, !.loc[g].res = "nil", !.pc[g] = "wrap.ret"]
  /\ UNCHANGED H
S_Store2(g) ==
  /\ g \in PGs /\ S.pc[g] = "wrap.ret" /\ WK # "plain" /\ Failed(S.loc[g].j)
  /\ S' = [S EXCEPT !.pc[g] = "resp.stored", !.loc[g].res = "error"]
  /\ UNCHANGED H
S_Fin(g) ==
  /\ g \in PGs
  /\ \/ S.pc[g] = "wrap.ret" /\ ~(WK # "plain" /\ Failed(S.loc[g].j))
     \/ S.pc[g] = "resp.stored" /\ S.loc[g].res = "error"
  /\ LET j == S.loc[g].j IN
       S' = [S EXCEPT !.msucc = IF Failed(j) THEN @ ELSE @ + 1, !.mfail = IF Failed(j) THEN @ + 1 ELSE @,
                      !.rsent = IF S.pc[g] = "resp.stored" /\ BatchOf[j] = 0 THEN @ \cup {j} ELSE @, !.loc[g].res = "nil", !.pc[g] = "serve.wfdone"]
  /\ UNCHANGED H
\* ... then changeStatus(finished)
S_Fin2(g) ==
  /\ g \in PGs /\ S.pc[g] = "serve.wfdone"
  /\ S' = [S EXCEPT !.jst[S.loc[g].j] = "finished", !.pc[g] = "serve.fin"]
  /\ UNCHANGED H
\* j.Close(): markClosed; an error is offered on the error channel (RLock)
AckIdOf(j) == LET ids == {u[1] : u \in {x \in S.unacked : x[2] = j}} IN IF ids = {} THEN 0 ELSE Max(ids)
S_Close(g) ==
  /\ g \in PGs /\ S.pc[g] = "serve.fin"
  /\ UNCHANGED H
  /\ LET j == S.loc[g].j IN
     IF S.jst[j] \in {"processing", "closed"}
       THEN MxFree /\ S' = [S EXCEPT !.pc[g] = "serve.closed"]
     ELSE IF Adapter
       THEN \* ack(): Acknowledge(ackId) on the adapter; refused => error, the job stays Finished and unacknowledged
            IF <<"ack", S.calls.ack>> \in Faults
              THEN MxFree /\ S' = [S EXCEPT !.calls.ack = @ + 1, !.pc[g] = "serve.closed"]
              ELSE S' = [S EXCEPT !.calls.ack = @ + 1,
                                  !.badack = IF AckIdOf(j) = 0 THEN @ + 1 ELSE @,
                                  !.unacked = @ \ {<<AckIdOf(j), j>>}, !.acked = @ \cup {j},
                                  !.jst[j] = "closed", !.pc[g] = "jclose.marked", !.stk[g] = <<"serve.closed">>]
     ELSE S' = [S EXCEPT !.jst[j] = "closed", !.pc[g] = "jclose.marked", !.stk[g] = <<"serve.closed">>]
\* freePoolNode: decide (queue length, limit, idle count are read here) whether to keep the node ...
S_Free(g) ==
  /\ g \in PGs /\ S.pc[g] = "serve.closed"
  /\ S' = IF QTot >= S.conc \/ Expiry \/ Len(S.idle) < MinIdle
            THEN [S EXCEPT !.pc[g] = "free.push"]
            ELSE [S EXCEPT !.pc[g] = "free.stop"]
  /\ UNCHANGED H
\* ... then push it onto the idle list, or stop the own goroutine (the stop payload goes into the own, empty channel) and cache the node
S_FreePush(g) ==
  /\ g \in PGs /\ S.pc[g] = "free.push"
  /\ S' = [S EXCEPT !.idle = Append(@, S.loc[g].node), !.pc[g] = "serve.freed"]
  /\ UNCHANGED H
S_FreeStop(g) ==
  /\ g \in PGs /\ S.pc[g] = "free.stop"
  /\ S' = [S EXCEPT !.nch[S.loc[g].node] = Append(@, STOP), !.cache = @ \cup {S.loc[g].node}, !.pc[g] = "serve.freed"]
  /\ UNCHANGED H
S_Dec(g) ==
  /\ g \in PGs /\ S.pc[g] = "serve.freed"
  /\ S' = [S EXCEPT !.cur = @ - 1, !.loc[g].n = S.cur - 1, !.pc[g] = "rel.enter", !.stk[g] = <<"serve.rel">>]
  /\ UNCHANGED H
\* incCompleted; notify; back to the channel
S_Notify(g) ==
  /\ g \in PGs /\ S.pc[g] = "serve.rel" /\ MxFree
  /\ S' = [NotifyS(S) EXCEPT !.mcomp = @ + 1, !.pc[g] = "recv"]
  /\ UNCHANGED H

-----------------------------------------------------------------------------
\* the process dies (any state is a crash point); the adapter keeps pending, delivered-unacknowledged and acknowledged entries;
\* after recovery (unacknowledged entries are pending again, oldest first) a fresh worker is bound to it: no client call is needed
Redeliver == SeqOfSet({u[2] : u \in S.unacked})
Crash ==
  /\ Adapter /\ S.crashes < MaxCrash
  /\ S' = [S EXCEPT !.ws = "running", !.cur = 0, !.conc = Conc0, !.gen = 0, !.chanNil = FALSE,
                    !.sigTok = [g \in Gens |-> IF g = 0 THEN 1 ELSE 0], !.sigClosed = [g \in Gens |-> FALSE],
                    !.mx = "none", !.lc = "none", !.sm = "none", !.cond = {}, !.q = [S.q EXCEPT ![1] = Redeliver \o @], !.unacked = {}, !.qclosed = [k \in Queues |-> FALSE], !.rr = 0,
                    !.idle = <<1>>, !.nch = [n \in Nodes |-> <<>>], !.cache = {}, !.used = {1},
                    !.msub = 0, !.mcomp = 0, !.msucc = 0, !.mfail = 0, !.tick = IF Expiry THEN {0} ELSE {},
                    !.pc = [p \in Procs |-> IF p \in Clients THEN "done" ELSE IF p = DispSeq[1] THEN "loop.start" ELSE IF p = PGSeq[1] THEN "recv"
                                             ELSE IF p = ReapSeq[1] /\ Expiry THEN "reap.wait" ELSE "unborn"],
                    !.stk = [p \in Procs |-> <<>>],
                    !.loc = [p \in Procs |-> IF p = PGSeq[1] THEN [NoLoc EXCEPT !.node = 1] ELSE NoLoc],
                    !.crashes = @ + 1]
  /\ H' = [H EXCEPT !.epoch = "open", !.ctl = 0, !.enters = H.exits]      \* what was in flight is simply gone

ClientStep(c) == C_Add(c) \/ C_AddRejected(c) \/ C_AddNotify(c) \/ C_Close(c) \/ C_Wait(c) \/ C_QClose(c)
                 \/ C_WUF(c) \/ C_Pause(c) \/ C_Resume(c) \/ C_Tune(c) \/ C_Purge(c) \/ C_Stop(c) \/ C_WaitAndStop(c)
                 \/ C_Restart(c) \/ C_CancelCtx(c) \/ C_Nop(c) \/ C_NoHandle(c) \/ C_AddAll(c) \/ I_AddAllNext(c)
                 \/ C_Result(c) \/ C_BatchWait(c) \/ C_BatchRead(c) \/ C_NoQueue(c) \/ C_Bind(c) \/ B_Reg(c)
\* steps of sub-procedures that clients and the context listener share
SubStep(p) == CT_Marked(p) \/ CT_Wgc(p) \/ CT_RespClose(p) \/ LC_Switch(p) \/ T_Store(p) \/ I_Wuf(p) \/ W_Cond(p) \/ W_Park(p) \/ W_Wake(p) \/ I_Pause(p) \/ P_Store(p) \/ P_Retry(p) \/ R_Store(p) \/ R_Retry(p) \/ I_Resume(p) \/ R_Notify(p)
              \/ T_After(p) \/ T_Loop(p) \/ T_Stop(p) \/ U_Deq(p) \/ U_Close(p)
              \/ I_Stop(p) \/ I_Stop2(p) \/ S_Chans(p) \/ S_Nodes(p) \/ I_StopAll(p) \/ SA_Stop(p) \/ SP_Fin(p) \/ SP_Fin2(p) \/ Rel_Eval(p) \/ Rel_Bcast(p)
              \/ I_Restart(p) \/ I_RsNodes(p) \/ I_Rs2(p) \/ RS_Close(p) \/ RS_New(p) \/ RS_Reset(p) \/ RS_Start(p)
              \/ I_Start(p) \/ ST_Go(p) \/ ST_Go2(p) \/ ST_Push(p) \/ ST_Fin(p) \/ ST_Notify(p)
DispStep(d) == D_Take(d) \/ D_Woken(d) \/ D_Exit(d) \/ D_Check(d) \/ D_Check2(d) \/ D_Reserve(d) \/ D_Recheck(d) \/ D_Deq(d) \/ D_HandOver(d) \/ D_Proc(d) \/ D_Skip(d) \/ D_Node(d) \/ D_Send(d)
               \/ Rel_Eval(d) \/ Rel_Bcast(d)
PoolStep(g) == S_Recv(g) \/ S_Enter(g) \/ S_Exit(g) \/ S_Store1(g) \/ S_Ret(g) \/ S_Store2(g) \/ S_Fin(g) \/ S_Close(g) \/ S_Fin2(g) \/ CT_Marked(g) \/ CT_Wgc(g) \/ CT_RespClose(g) \/ S_Free(g) \/ S_FreePush(g) \/ S_FreeStop(g) \/ S_Dec(g) \/ S_Notify(g)
               \/ Rel_Eval(g) \/ Rel_Bcast(g)
ReapStep(r) == RP_Tick(r) \/ RP_Len(r) \/ RP_Next(r) \/ RP_Stop(r) \/ RP_Cont(r)
LisStep(x) == X_Fire(x) \/ X_Check(x) \/ SubStep(x)

ProcStep(p) == \/ p \in Clients /\ (ClientStep(p) \/ SubStep(p))
               \/ p \in Disps /\ DispStep(p)
               \/ p \in PGs /\ PoolStep(p)
               \/ p \in Reapers /\ ReapStep(p)
               \/ p \in Listeners /\ LisStep(p)
Next == (\E p \in Procs : ProcStep(p)) \/ Crash
Internal == \E p \in Procs \ Clients : ProcStep(p)

Spec == Init /\ [][Next]_vars
\* fairness: every goroutine keeps running; the remover's ticks are not forced
Fair == /\ \A p \in Clients \cup Disps \cup PGs \cup Listeners : WF_vars(ProcStep(p))
FairSpec == Spec /\ Fair
=============================================================================
