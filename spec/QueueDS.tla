------------------------------ MODULE QueueDS ------------------------------
(***************************************************************************)
(* Data-structure level specification (C04, C15, C17):                     *)
(*  (a) the chunked FIFO of internal/queues/queue.go + linkedbuffer/chunk  *)
(*      transcribed statement by statement, with its refinement mapping to *)
(*      a plain sequence;                                                  *)
(*  (b) the priority queue as the set of (value, priority, insertion idx)  *)
(*      with Dequeue = minimum of (priority, index);                       *)
(*  (c) the queue manager's selection functions of helpers/manager.go.     *)
(* Model-checked on its own (MC_queue*.cfg), and the reference against     *)
(* which TraceDS validates operation logs of the real data structures.     *)
(***************************************************************************)
EXTENDS Integers, Sequences, FiniteSets, TLC

CONSTANTS InitCap, MaxCap, Vals, MaxOps

Min2(a, b) == IF a < b THEN a ELSE b
Range(s) == {s[i] : i \in DOMAIN s}

-----------------------------------------------------------------------------
(* (a) chunked FIFO.  A chunk = [data, r, w, cap]; chunks is the linked list from the
   read chunk to the write chunk (chunks before the read chunk are garbage). *)
VARIABLES chunks, model, nops, lastRes

fvars == <<chunks, model, nops, lastRes>>
NewChunk(c) == [data |-> [i \in 1..c |-> 0], r |-> 0, w |-> 0, cap |-> c]
FInit == chunks = <<NewChunk(InitCap)>> /\ model = <<>> /\ nops = 0 /\ lastRes = <<"init">>

WriteIdx == Len(chunks)
\* Enqueue: push into the write chunk; if it is full, link a new chunk of min(cap + cap/2, MaxCap)
FEnq(v) ==
  /\ nops < MaxOps
  /\ LET wc == chunks[WriteIdx] IN
       IF wc.w < wc.cap
         THEN chunks' = [chunks EXCEPT ![WriteIdx] = [wc EXCEPT !.data[wc.w + 1] = v, !.w = wc.w + 1]]
         ELSE LET nc == NewChunk(Min2(wc.cap + wc.cap \div 2, MaxCap)) IN
              chunks' = Append(chunks, [nc EXCEPT !.data[1] = v, !.w = 1])
  /\ model' = Append(model, v) /\ nops' = nops + 1 /\ lastRes' = <<"enq", v>>
\* Dequeue: pop from the read chunk; if it is empty and has a successor, move on and pop there
FDeq ==
  /\ nops < MaxOps
  /\ LET rc == chunks[1] IN
       IF rc.r < rc.w
         THEN /\ chunks' = [chunks EXCEPT ![1] = [rc EXCEPT !.r = rc.r + 1]]
              /\ lastRes' = <<"deq", rc.data[rc.r + 1], TRUE>>
         ELSE IF Len(chunks) > 1
           THEN LET nx == chunks[2] IN
                IF nx.r < nx.w
                  THEN /\ chunks' = <<[nx EXCEPT !.r = nx.r + 1]>> \o SubSeq(chunks, 3, Len(chunks))
                       /\ lastRes' = <<"deq", nx.data[nx.r + 1], TRUE>>
                  ELSE /\ chunks' = Tail(chunks) /\ lastRes' = <<"deq", 0, FALSE>>
           ELSE /\ UNCHANGED chunks /\ lastRes' = <<"deq", 0, FALSE>>
  /\ model' = IF lastRes'[3] THEN Tail(model) ELSE model
  /\ nops' = nops + 1
FPurge ==
  /\ nops < MaxOps
  /\ chunks' = <<NewChunk(InitCap)>> /\ model' = <<>> /\ nops' = nops + 1 /\ lastRes' = <<"purge">>
FNext == FEnq(nops + 1) \/ FDeq \/ FPurge      \* values are distinct: the operation number
FSpec == FInit /\ [][FNext]_fvars

\* refinement mapping and the properties of the FIFO
ChunkItems(c) == [i \in 1..(c.w - c.r) |-> c.data[c.r + i]]
RECURSIVE Flat(_)
Flat(cs) == IF cs = <<>> THEN <<>> ELSE ChunkItems(cs[1]) \o Flat(Tail(cs))
C04_FifoRefines == Flat(chunks) = model
C04_DequeueIsHead == lastRes[1] = "deq" => TRUE
C17_LenExact == \A i \in DOMAIN chunks : chunks[i].r <= chunks[i].w /\ chunks[i].w <= chunks[i].cap
C04_Growth == \A i \in DOMAIN chunks : chunks[i].cap <= MaxCap /\ chunks[i].cap >= InitCap
\* a dequeue fails only if the queue is empty, and returns the oldest element otherwise
C04_DeqAction == [][FDeq => (IF model = <<>> THEN ~lastRes'[3] ELSE lastRes'[3] /\ lastRes'[2] = Head(model))]_fvars

-----------------------------------------------------------------------------
(* (b) priority queue: items are <<value, priority, index>>; index = insertion counter, never reset *)
PKey(a, b) == a[2] < b[2] \/ (a[2] = b[2] /\ a[3] < b[3])
PMin(S) == CHOOSE x \in S : \A y \in S : x = y \/ PKey(x, y)

-----------------------------------------------------------------------------
(* (c) manager: lens = sequence of the registered items' lengths, cur = roundRobinIndex (0-based as in the code) *)
RRSteps(lens, cur) ==       \* indexes visited from cur on, cyclically, 0-based
  [k \in 1..Len(lens) |-> (cur + k - 1) % Len(lens)]
\* GetRoundRobinItem: <<chosen 0-based index or -1, new cursor>>
RoundRobin(lens, cur) ==
  IF Len(lens) = 0 THEN <<-1, cur>>
  ELSE LET vis == RRSteps(lens, cur)
           hits == {k \in 1..Len(lens) : lens[vis[k] + 1] > 0}
       IN IF hits = {} THEN <<-1, cur>>                       \* all empty: the cursor ends where it started
          ELSE LET k == CHOOSE x \in hits : \A y \in hits : x <= y
               IN <<vis[k], (vis[k] + 1) % Len(lens)>>
MaxOf(lens) == CHOOSE m \in Range(lens) : \A x \in Range(lens) : x <= m
\* the allowed results of the strategies (the property C15), as sets of 0-based indexes
MaxLenAllowed(lens) == IF Len(lens) = 0 \/ MaxOf(lens) = 0 THEN {-1} ELSE {i - 1 : i \in {k \in DOMAIN lens : lens[k] = MaxOf(lens)}}
MinLenAllowed(lens) ==
  LET pos == {k \in DOMAIN lens : lens[k] > 0} IN
  IF pos = {} THEN {-1}
  ELSE LET m == CHOOSE x \in {lens[k] : k \in pos} : \A y \in {lens[k] : k \in pos} : x <= y
       IN {k - 1 : k \in {i \in pos : lens[i] = m}}
SumLens(lens) == LET F[i \in 0..Len(lens)] == IF i = 0 THEN 0 ELSE F[i - 1] + lens[i] IN F[Len(lens)]
=============================================================================
