----------------------------- MODULE TraceDist -----------------------------
(* Conformance of recorded executions of several consumers on one recording adapter (families dist, distbind) with Dist:
   every adapter call, notification, worker-function entry/exit and binding step of the trace must be the corresponding
   Dist action with the logged arguments; dispatcher-internal steps are taken silently; where the implementation was at
   rest no internal Dist step may be enabled. *)
EXTENDS Dist, Json, IOUtils

Tr == ndJsonDeserialize(IOEnv.TRACE)
VARIABLE l
tvars == <<vars, l>>
TInit == Init /\ l = 1 /\ TLCSet(1, 1)

Line(k) ==
  /\ l <= Len(Tr)
  /\ Tr[l].k = k
  /\ l' = l + 1
T_Enq == Line("enq") /\ LET e == Tr[l] IN
           /\ e.p \in Producers /\ P_Enq(e.p)
           /\ Script[e.p][ppc[e.p]] = e.x
           /\ Len(subs) = e.n
T_Notify == Line("notify") /\ LET e == Tr[l] IN e.p \in Producers /\ P_Notify(e.p)
T_Deq == Line("deq") /\ LET e == Tr[l] IN
           \E c \in Consumers : D_Deq(c) /\ QLen(c) > 0 /\ Head(pend) = e.x
T_Enter == Line("enter") /\ LET e == Tr[l] IN W_Enter(e.x) /\ owner[e.x] = e.c
T_Exit == Line("exit") /\ W_Exit(Tr[l].x)
T_Ack == Line("ack") /\ W_Ack(Tr[l].x)
T_Reg == Line("reg") /\ \E c \in Late : B_Reg(c)
T_Sub == Line("sub") /\ \E c \in Late : B_Sub(c)
T_Start == Line("start") /\ \E c \in Late : B_Start(c)
T_BNotify == Line("bnotify") /\ \E c \in Late : B_Notify(c)
\* at rest: nothing internal is left to do
T_Quiet == Line("quiescent") /\ ~ENABLED Internal /\ UNCHANGED vars
T_Silent ==
  /\ l <= Len(Tr) + 1
  /\ \/ \E c \in Consumers : D_Range(c) \/ D_Check(c) \/ D_Reserve(c) \/ (D_Deq(c) /\ QLen(c) = 0)
     \/ \E x \in Items : W_Done(x)
  /\ UNCHANGED l
TNext == T_Enq \/ T_Notify \/ T_Deq \/ T_Enter \/ T_Exit \/ T_Ack \/ T_Reg \/ T_Sub \/ T_Start \/ T_BNotify \/ T_Quiet \/ T_Silent
TSpec == TInit /\ [][TNext]_tvars
HighWater == TLCSet(1, IF TLCGet(1) > l THEN TLCGet(1) ELSE l)
Accepted == IF TLCGet(1) = Len(Tr) + 1 THEN TRUE ELSE PrintT(<<"VERIF-HW", TLCGet(1), Len(Tr)>>) /\ FALSE
=============================================================================
