----------------------------- MODULE Lifecycle -----------------------------
(* The documented lifecycle machine of a worker (C14): Initiated, Running <-> Paused, Stopped,
   Restart back to Running.  RefRes gives the error result of a control call made in state s,
   RefNext the state after it.  `same` = TunePool was called with the current concurrency. *)
RefStates == {"initiated", "running", "paused", "stopped"}

RefRes(s, op, same) ==
  CASE op = "Bind" -> "nil"
    [] op \in {"Pause", "PauseAndWait"} -> IF s = "initiated" THEN "ErrNotRunningWorker" ELSE "nil"
    [] op = "Resume" -> IF s = "stopped" THEN "ErrNotRunningWorker" ELSE IF s = "running" THEN "ErrRunningWorker" ELSE "nil"
    [] op \in {"Stop", "WaitAndStop"} -> IF s = "initiated" THEN "ErrNotRunningWorker" ELSE "nil"
    [] op = "Restart" -> "nil"
    [] op = "TunePool" -> IF s # "running" THEN "ErrNotRunningWorker" ELSE IF same THEN "ErrSameConcurrency" ELSE "nil"
    [] OTHER -> "nil"

RefNext(s, op) ==
  CASE op = "Bind" -> IF s = "initiated" THEN "running" ELSE s          \* only the first bind starts the worker
    [] op \in {"Pause", "PauseAndWait"} -> IF s = "running" THEN "paused" ELSE s
    [] op = "Resume" -> IF s \in {"initiated", "paused"} THEN "running" ELSE s
    [] op \in {"Stop", "WaitAndStop"} -> IF s \in {"running", "paused"} THEN "stopped" ELSE s
    [] op = "Restart" -> "running"
    [] OTHER -> s

StatusName(s) == CASE s = "initiated" -> "Initiated" [] s = "running" -> "Running" [] s = "paused" -> "Paused" [] s = "stopped" -> "Stopped" [] OTHER -> "Unknown"
=============================================================================
