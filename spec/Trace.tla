------------------------------- MODULE Trace -------------------------------
(***************************************************************************)
(* Conformance pass: a trace recorded from the real code under the gate    *)
(* (one line per vhook() / harness point, with arguments and a projection  *)
(* of the worker's state) must be a behaviour of VarMQ.  Every line is     *)
(* explained by the spec's own action of the process that logged it, which *)
(* has to end at the logged label with the logged arguments and the logged *)
(* state projection.  Steps between two internal labels ("i.*") of VarMQ   *)
(* are not logged; they are taken silently, only by the process whose line *)
(* is next.                                                                *)
(***************************************************************************)
EXTENDS VarMQ, Json, IOUtils

Tr == ndJsonDeserialize(IOEnv.TRACE)

VARIABLES l, bind      \* next line; trace name of a pool goroutine -> spec id
tvars == <<vars, l, bind>>

TInit == Init /\ l = 1 /\ bind = <<>> /\ TLCSet(1, 1)

IsInternal(lbl) == lbl \in {"i.wuf", "i.pause", "i.resume", "i.stop.fin", "i.stop", "i.stop2", "i.stopall", "i.restart", "i.rs.nodes", "i.rs2", "i.start",
                          "i.tune.loop", "i.purge.loop", "i.reap.next", "i.loop", "i.loop.lock", "i.disp.lock", "i.start.2", "i.range", "i.start.notify", "i.addall", "wuf.cw", "recv", "reap.wait", "ctx.wait", "dead"}
\* pool goroutines, removers and listeners get their trace names when they are first seen at a hook,
\* the spec names them when they are spawned: bind records the correspondence
Pfx(n, k) == Len(n) > Len(k) /\ SubSeq(n, 1, Len(k)) = k
Lazy(n) == \E i \in 1..9 : n \in {"pg" \o ToString(i), "reap" \o ToString(i), "ctx" \o ToString(i)}
IsPool(n) == \E i \in 1..9 : n = "pg" \o ToString(i)
KindOf(n) == IF \E i \in 1..9 : n = "pg" \o ToString(i) THEN PGs
             ELSE IF \E i \in 1..9 : n = "reap" \o ToString(i) THEN Reapers ELSE Listeners
Bound == {bind[x] : x \in DOMAIN bind}
ProcOf(e) == IF Lazy(e.p) THEN (IF e.p \in DOMAIN bind THEN bind[e.p] ELSE "?") ELSE e.p

\* logged projection = state after the step
ProjOK(e) ==
  \/ ~e.hasst
  \/ /\ e.st.ws = S'.ws
     /\ e.st.cur = S'.cur
     /\ e.st.conc = S'.conc
     /\ \A k \in Queues : IF QKinds[k] = "prio" THEN Range(e.st.q[k]) = Range(S'.q[k]) /\ Len(e.st.q[k]) = Len(S'.q[k])    \* Values() of the heap is not sorted
                         ELSE e.st.q[k] = S'.q[k]
     /\ e.st.idle = S'.idle
     \* a send to a channel whose receiver is parked is handed over directly: the buffer stays empty
     /\ (e.st.sig = -1) = S'.chanNil
     /\ (e.st.sig = 1) = (~S'.chanNil /\ S'.sigTok[S'.gen] = 1)

ArgsOK(e, p) ==
  /\ e.ev \in {"add.enq", "disp.deq", "disp.proc", "serve.recv", "serve.fin", "serve.closed", "jclose.marked", "wf.enter", "wf.exit"} /\ e.job # 0
        => S'.loc[p].j = e.job
  /\ e.ev = "disp.deq" => (S'.loc[p].j = 0) = ~e.ok
  /\ e.ev \in {"add.enq", "disp.proc"} => S'.loc[p].ok = e.ok
  /\ e.ev \in {"disp.node", "node.init", "serve.recv", "serve.freed", "free.push", "free.stop", "stopall.removed", "tune.popped", "reap.removed", "reap.stopped"} => S'.loc[p].node = e.node
  /\ e.ev = "rel.enter" => S'.loc[p].n = e.n
  /\ e.ev = "purge.deq" => S'.loc[p].ok = e.ok

\* lines that are not the end of a spec step: notes, and the second-layer hook points inside one step
Inner == {"q.len", "q.deq", "q.enq", "wrap.wf", "wgc.load", "bind.sub", "ad.sub", "job.sp.load", "job.mc.load", "jclose.checked", "disp.cas.load", "reap.expired", "add.pre"}
NoStep == {"call", "ret", "c.start", "loop.start", "notify.sent", "notify.dropped", "quiescent"} \cup Inner

\* a line of a process parked at the label it reached
T_Hook ==
  /\ l <= Len(Tr)
  /\ LET e == Tr[l] IN
     /\ e.ev \notin NoStep
     /\ LET p == ProcOf(e) IN
        /\ p \in Procs
        /\ ProcStep(p)
        /\ S'.pc[p] = e.ev
        /\ ArgsOK(e, p)
        /\ ProjOK(e)
     /\ l' = l + 1 /\ UNCHANGED bind

\* first line of a pool goroutine, remover or listener: bind its trace name to a spec process of that kind
T_First ==
  /\ l <= Len(Tr)
  /\ LET e == Tr[l] IN
     /\ e.ev \notin NoStep /\ Lazy(e.p) /\ e.p \notin DOMAIN bind
     /\ \E p \in KindOf(e.p) \ Bound :
          /\ ProcStep(p)
          /\ S'.pc[p] = e.ev
          /\ ArgsOK(e, p)
          /\ bind' = [x \in DOMAIN bind \cup {e.p} |-> IF x = e.p THEN p ELSE bind[x]]
     /\ ProjOK(e)
     /\ l' = l + 1

\* the return of a client call: the step that completes the op
T_Ret ==
  /\ l <= Len(Tr)
  /\ LET e == Tr[l] IN
     /\ e.ev = "ret"
     /\ e.p \in Clients
     /\ ProcStep(e.p)
     /\ S'.ip[e.p] = S.ip[e.p] + 1
     /\ l' = l + 1 /\ UNCHANGED bind

\* the end of a pool goroutine's callback (incCompleted; notify) is visible as its notify line
T_PoolNotify ==
  /\ l <= Len(Tr)
  /\ LET e == Tr[l] IN
     /\ e.ev \in {"notify.sent", "notify.dropped"} /\ IsPool(e.p) /\ e.p \in DOMAIN bind
     /\ S.pc[bind[e.p]] = "serve.rel"
     /\ S_Notify(bind[e.p])
     /\ (e.ev = "notify.sent") = (S'.sigTok # S.sigTok \/ \E d \in Disps : S'.loc[d].tok # S.loc[d].tok)
  /\ l' = l + 1 /\ UNCHANGED bind

\* lines that do not correspond to a step of the spec: they are checked against the current state
T_Note ==
  /\ l <= Len(Tr)
  /\ LET e == Tr[l] IN
     /\ e.ev \in {"call", "c.start", "loop.start", "notify.sent", "notify.dropped", "quiescent"} \cup Inner
     /\ e.ev \in {"notify.sent", "notify.dropped"} => ~IsPool(e.p)
     /\ e.ev = "call" => S.pc[e.p] = "call" /\ HasOp(e.p) /\ Op(e.p).op = e.op
     /\ e.ev = "loop.start" => S.pc[e.p] = "loop.start"
     \* quiescence conformance: where the implementation is at rest, the design must have nothing left to do
     /\ e.ev = "quiescent" => ~ENABLED (\E p \in Procs \ Reapers : ProcStep(p))
  /\ l' = l + 1 /\ UNCHANGED <<vars, bind>>

\* an unlogged step that ends at an internal label
T_Silent ==
  /\ l <= Len(Tr)
  /\ \E p \in Procs : ProcStep(p) /\ IsInternal(S'.pc[p]) /\ ~(p \in PGs /\ S.pc[p] = "serve.rel")
  /\ UNCHANGED <<l, bind>>

TNext == T_Hook \/ T_First \/ T_Ret \/ T_PoolNotify \/ T_Note \/ T_Silent
TSpec == TInit /\ [][TNext]_tvars

\* acceptance: some behaviour consumes every line (high-water mark kept in a TLC register)
HighWater == TLCSet(1, IF TLCGet(1) > l THEN TLCGet(1) ELSE l)
Accepted == IF TLCGet(1) = Len(Tr) + 1 THEN TRUE ELSE PrintT(<<"VERIF-HW", TLCGet(1), Len(Tr)>>) /\ FALSE
=============================================================================
