-------------------------------- MODULE Dist --------------------------------
(***************************************************************************)
(* Several workers consuming one shared, acknowledging adapter (property   *)
(* C13; also C11 for the acknowledgement discipline across consumers).     *)
(*                                                                         *)
(* VarMQ.tla models one worker in full detail.  This module models the     *)
(* protocol BETWEEN workers: the adapter's pending list, its subscriber    *)
(* list and 'enqueued' notifications, and per consumer the coalescing      *)
(* 1-slot wake-up signal, the dispatcher's pass (check, reserve a slot,    *)
(* dequeue - which another consumer may win -, hand over) and the          *)
(* completion path (acknowledge, give the slot back, notify itself).       *)
(* Binding a consumer is three steps (Register with the queue manager,     *)
(* Subscribe, start) whose order is a constant, so that the specification  *)
(* also documents why the order matters (SubFirst = FALSE is the library   *)
(* before fix c889587: a stranded item, configuration "distgap").          *)
(*                                                                         *)
(* Granularity: every step below is atomic in the code with respect to the *)
(* other consumers (adapter calls are serialised by the adapter, the       *)
(* signal is a channel operation).  What one worker does between those     *)
(* points is VarMQ.tla's subject and is abstracted here.                   *)
(***************************************************************************)
EXTENDS Integers, Sequences, FiniteSets, TLC

CONSTANTS
  Consumers,   \* set of consumer ids (1..k)
  Conc,        \* [Consumers -> 1..]: concurrency of each consumer
  Producers,   \* set of producer ids (strings)
  Script,      \* [Producers -> Seq(item)]: the items each producer enqueues, in order
  Preload,     \* Seq(item): what the adapter already holds at the beginning
  Late,        \* subset of Consumers that are bound during the run (the others are bound and started before it)
  SubFirst,    \* BOOLEAN: Subscribe before start (the library as fixed) or after it
  StopOnError, \* BOOLEAN: a failed dispatch ends the dispatcher's pass (a seeded defect; FALSE in the library)
  PrioOf,      \* [Items -> Int]: delivery priority (all 0 for a plain adapter; smaller first, ties in arrival order)
  Bad          \* items whose stored entry cannot be decoded: delivered, reported as an error, skipped (never run, never acknowledged)

Items == UNION {{Script[p][i] : i \in DOMAIN Script[p]} : p \in Producers} \cup {Preload[i] : i \in DOMAIN Preload}

VARIABLES
  pend,      \* adapter: pending entries, in delivery order
  unacked,   \* adapter: delivered, not yet acknowledged: set of <<item, consumer>>
  acked,     \* adapter: acknowledged items
  subs,      \* adapter: subscribed consumers, in subscription order
  reg,       \* consumer -> the shared queue is registered with its queue manager (its Len() is visible to the dispatcher)
  tok,       \* consumer -> 0..1: the buffered wake-up signal
  lp,        \* consumer -> dispatcher state: "off" | "range" | "parked" | "wake" | "pass" | "reserved"
  cur,       \* consumer -> slots in use
  job,       \* item -> "none" | "sent" | "entered" | "exited" | "acked" | "done"   (progress of the delivery that is being processed)
  owner,     \* item -> consumer that dequeued it (0: nobody yet)
  bpc,       \* late consumer -> "unbound" | "reg" | "sub" | "start" | "notify" | "bound"
  ppc,       \* producer -> index of its next item
  pn,        \* producer -> consumers still to be told about its last enqueue (the adapter calls the handlers one by one)
  msub,      \* consumer -> Metrics().Submitted
  hist       \* history: enters per item, notifications owed per consumer

vars == <<pend, unacked, acked, subs, reg, tok, lp, cur, job, owner, bpc, ppc, pn, msub, hist>>

Early == Consumers \ Late
SeqOfSet(X) == LET F[k \in 0..Cardinality(X)] == IF k = 0 THEN <<>> ELSE LET m == CHOOSE x \in X : Cardinality({y \in X : y < x}) = k - 1 IN Append(F[k - 1], m)
               IN F[Cardinality(X)]

Init ==
  /\ pend = Preload /\ unacked = {} /\ acked = {}
  /\ subs = SeqOfSet(Early)
  /\ reg = [c \in Consumers |-> c \in Early]
  /\ tok = [c \in Consumers |-> IF c \in Early THEN 1 ELSE 0]          \* start()'s initial notify
  /\ lp = [c \in Consumers |-> IF c \in Early THEN "range" ELSE "off"]
  /\ cur = [c \in Consumers |-> 0]
  /\ job = [x \in Items |-> "none"] /\ owner = [x \in Items |-> 0]
  /\ bpc = [c \in Consumers |-> IF c \in Late THEN "unbound" ELSE "bound"]
  /\ ppc = [p \in Producers |-> 1] /\ pn = [p \in Producers |-> <<>>]
  /\ msub = [c \in Consumers |-> 0]
  /\ hist = [enters |-> [x \in Items |-> 0], owed |-> [c \in Consumers |-> 0]]

\* the non-blocking send on consumer c's signal channel: handed to a parked dispatcher, else buffered, else dropped
Signal(c, l, t) == IF l[c] = "parked" THEN <<[l EXCEPT ![c] = "wake"], t>>
                   ELSE IF t[c] = 0 THEN <<l, [t EXCEPT ![c] = 1]>> ELSE <<l, t>>

\* the adapter keeps its pending entries ordered by (priority, arrival)
Insert(s, x) == LET k == Cardinality({i \in DOMAIN s : PrioOf[s[i]] <= PrioOf[x]})
                IN SubSeq(s, 1, k) \o <<x>> \o SubSeq(s, k + 1, Len(s))

-----------------------------------------------------------------------------
(* producers: Enqueue on the adapter, which then calls every subscriber's handler in turn *)
P_Enq(p) ==
  /\ ppc[p] <= Len(Script[p]) /\ pn[p] = <<>>
  /\ pend' = Insert(pend, Script[p][ppc[p]])
  /\ pn' = [pn EXCEPT ![p] = subs]
  /\ ppc' = [ppc EXCEPT ![p] = @ + 1]
  /\ hist' = [hist EXCEPT !.owed = [c \in Consumers |-> IF \E i \in DOMAIN subs : subs[i] = c THEN @[c] + 1 ELSE @[c]]]
  /\ UNCHANGED <<unacked, acked, subs, reg, tok, lp, cur, job, owner, bpc, msub>>
\* handleQueueSubscription("enqueued"): incSubmitted, notifyToPullNextJobs
P_Notify(p) ==
  /\ pn[p] # <<>>
  /\ LET c == Head(pn[p])  s == Signal(c, lp, tok) IN
       /\ msub' = [msub EXCEPT ![c] = @ + 1]
       /\ lp' = s[1] /\ tok' = s[2]
  /\ pn' = [pn EXCEPT ![p] = Tail(@)]
  /\ UNCHANGED <<pend, unacked, acked, subs, reg, cur, job, owner, bpc, ppc, hist>>

-----------------------------------------------------------------------------
(* binding a late consumer: Register, then Subscribe and start() in the configured order; start() = event loop + initial notify *)
B_Reg(c) ==
  /\ bpc[c] = "unbound"
  /\ reg' = [reg EXCEPT ![c] = TRUE]
  /\ bpc' = [bpc EXCEPT ![c] = IF SubFirst THEN "sub" ELSE "start"]
  /\ UNCHANGED <<pend, unacked, acked, subs, tok, lp, cur, job, owner, ppc, pn, msub, hist>>
B_Sub(c) ==
  /\ bpc[c] = "sub"
  /\ subs' = Append(subs, c)
  /\ bpc' = [bpc EXCEPT ![c] = IF SubFirst THEN "start" ELSE "bound"]
  /\ UNCHANGED <<pend, unacked, acked, reg, tok, lp, cur, job, owner, ppc, pn, msub, hist>>
B_Start(c) ==
  /\ bpc[c] = "start"
  /\ lp' = [lp EXCEPT ![c] = "range"]
  /\ bpc' = [bpc EXCEPT ![c] = "notify"]
  /\ UNCHANGED <<pend, unacked, acked, subs, reg, tok, cur, job, owner, ppc, pn, msub, hist>>
B_Notify(c) ==
  /\ bpc[c] = "notify"
  /\ LET s == Signal(c, lp, tok) IN lp' = s[1] /\ tok' = s[2]
  /\ bpc' = [bpc EXCEPT ![c] = IF SubFirst THEN "bound" ELSE "sub"]
  /\ UNCHANGED <<pend, unacked, acked, subs, reg, cur, job, owner, ppc, pn, msub, hist>>

-----------------------------------------------------------------------------
(* dispatcher of consumer c *)
QLen(c) == IF reg[c] THEN Len(pend) ELSE 0
\* for range signal: take the buffered token or park
D_Range(c) ==
  /\ lp[c] = "range"
  /\ IF tok[c] = 1 THEN tok' = [tok EXCEPT ![c] = 0] /\ lp' = [lp EXCEPT ![c] = "wake"]
     ELSE lp' = [lp EXCEPT ![c] = "parked"] /\ UNCHANGED tok
  /\ UNCHANGED <<pend, unacked, acked, subs, reg, cur, job, owner, bpc, ppc, pn, msub, hist>>
\* the pass condition: capacity and something pending
D_Check(c) ==
  /\ lp[c] = "wake"
  /\ lp' = [lp EXCEPT ![c] = IF cur[c] < Conc[c] /\ QLen(c) > 0 THEN "pass" ELSE "range"]
  /\ UNCHANGED <<pend, unacked, acked, subs, reg, tok, cur, job, owner, bpc, ppc, pn, msub, hist>>
D_Reserve(c) ==
  /\ lp[c] = "pass"
  /\ cur' = [cur EXCEPT ![c] = @ + 1]
  /\ lp' = [lp EXCEPT ![c] = "reserved"]
  /\ UNCHANGED <<pend, unacked, acked, subs, reg, tok, job, owner, bpc, ppc, pn, msub, hist>>
\* next() + DequeueWithAckId: another consumer may have taken the entry meanwhile - an error, the slot is given back, the pass goes on
D_Deq(c) ==
  /\ lp[c] = "reserved"
  /\ IF QLen(c) = 0
       THEN /\ cur' = [cur EXCEPT ![c] = @ - 1]
            /\ lp' = [lp EXCEPT ![c] = IF StopOnError THEN "range" ELSE "wake"]
            /\ UNCHANGED <<pend, unacked, job, owner>>
       ELSE LET x == Head(pend) IN
            /\ pend' = Tail(pend)
            /\ unacked' = unacked \cup {<<x, c>>}
            /\ owner' = [owner EXCEPT ![x] = c]
            /\ IF x \in Bad
                 THEN /\ cur' = [cur EXCEPT ![c] = @ - 1] /\ UNCHANGED job          \* parse error: the slot is given back, the pass goes on
                      /\ lp' = [lp EXCEPT ![c] = IF StopOnError THEN "range" ELSE "wake"]
                 ELSE /\ job' = [job EXCEPT ![x] = "sent"] /\ UNCHANGED cur
                      /\ lp' = [lp EXCEPT ![c] = "wake"]
  /\ UNCHANGED <<acked, subs, reg, tok, bpc, ppc, pn, msub, hist>>

-----------------------------------------------------------------------------
(* the pool goroutine that received item x *)
W_Enter(x) ==
  /\ job[x] = "sent"
  /\ job' = [job EXCEPT ![x] = "entered"]
  /\ hist' = [hist EXCEPT !.enters[x] = @ + 1]
  /\ UNCHANGED <<pend, unacked, acked, subs, reg, tok, lp, cur, owner, bpc, ppc, pn, msub>>
W_Exit(x) ==
  /\ job[x] = "entered"
  /\ job' = [job EXCEPT ![x] = "exited"]
  /\ UNCHANGED <<pend, unacked, acked, subs, reg, tok, lp, cur, owner, bpc, ppc, pn, msub, hist>>
\* Close(): Acknowledge with the id of this delivery
W_Ack(x) ==
  /\ job[x] = "exited"
  /\ unacked' = unacked \ {<<x, owner[x]>>} /\ acked' = acked \cup {x}
  /\ job' = [job EXCEPT ![x] = "acked"]
  /\ UNCHANGED <<pend, subs, reg, tok, lp, cur, owner, bpc, ppc, pn, msub, hist>>
\* the slot is given back, then the own dispatcher is notified
W_Done(x) ==
  /\ job[x] = "acked"
  /\ LET c == owner[x]  s == Signal(c, lp, tok) IN
       /\ cur' = [cur EXCEPT ![c] = @ - 1]
       /\ lp' = s[1] /\ tok' = s[2]
  /\ job' = [job EXCEPT ![x] = "done"]
  /\ UNCHANGED <<pend, unacked, acked, subs, reg, owner, bpc, ppc, pn, msub, hist>>

ConsumerStep(c) == D_Range(c) \/ D_Check(c) \/ D_Reserve(c) \/ D_Deq(c)
BindStep(c) == B_Reg(c) \/ B_Sub(c) \/ B_Start(c) \/ B_Notify(c)
Next == \/ \E p \in Producers : P_Enq(p) \/ P_Notify(p)
        \/ \E c \in Consumers : ConsumerStep(c) \/ BindStep(c)
        \/ \E x \in Items : W_Enter(x) \/ W_Exit(x) \/ W_Ack(x) \/ W_Done(x)
Internal == \/ \E c \in Consumers : ConsumerStep(c)
            \/ \E x \in Items : W_Enter(x) \/ W_Exit(x) \/ W_Ack(x) \/ W_Done(x)
Spec == Init /\ [][Next]_vars
FairSpec == Spec /\ WF_vars(Next)

-----------------------------------------------------------------------------
(* properties *)
TypeOK == /\ \A c \in Consumers : cur[c] \in 0..Conc[c] /\ tok[c] \in 0..1
          /\ \A x \in Items : owner[x] \in Consumers \cup {0}
\* each item is executed by exactly one consumer, once
C13_ExactlyOne == \A x \in Items : hist.enters[x] <= 1
\* nothing is in two places; an entry is acknowledged only after its worker function returned
C11_AckAfter == \A x \in acked : job[x] \in {"acked", "done"}
C13_NoLoss == \A x \in Items : (\E i \in DOMAIN pend : pend[i] = x) \/ (\E u \in unacked : u[1] = x) \/ x \in acked
                 \/ (\E p \in Producers : \E i \in ppc[p]..Len(Script[p]) : Script[p][i] = x)
\* at rest every item that was placed on the adapter has been processed, by somebody, driven by notifications alone
AtRest == ~ENABLED Next
C13_AllProcessed == AtRest => pend = <<>> /\ (\A u \in unacked : u[1] \in Bad) /\ \A x \in Items \ Bad : job[x] = "done"
\* each notification counts as one submission of the consumer it was delivered to
C13_Submitted == AtRest => \A c \in Consumers : msub[c] = hist.owed[c]
C12_NoBadRun == \A x \in Bad : hist.enters[x] = 0 /\ x \notin acked
C13_Live == <>[](\A x \in Items \ Bad : job[x] = "done")
=============================================================================
