------------------------------ MODULE MC_core ------------------------------
(* Model-checking instance of VarMQ: constants are fixed by the cfg through the operators below,
   properties of the core families as invariants over S and the history H. *)
EXTENDS VarMQ

\* ---- the properties on the model
TypeOK == /\ S.cur \in 0..H.concMax /\ S.conc >= 1
          /\ \A j \in Jobs : S.jwg[j] \in 0..1
          /\ \A n \in Nodes : Len(S.nch[n]) <= 1
NoViolation == H.viol = {}                       \* checks evaluated at the returns of client calls and at worker-function entries
C01_AtMostOnce == S.crashes = 0 => \A j \in Jobs : H.enters[j] <= 1       \* (after a crash an unacknowledged job runs again: at least once)
C01_NoRejected == \A j \in H.rejected : H.enters[j] = 0
\* batches: the stream is closed at most once; at the end every settled batch has its stream closed and its counter at zero
C08_CloseOnce == \A b \in Batches : S.gclosed[b] <= 1 /\ S.gcount[b] >= 0 /\ S.gwg[b] >= 0
C08_Closes == ~ENABLED Next => \A b \in S.bhd : (\A j \in ItemsOf(b) : Settled(j)) => S.gcount[b] = 0 /\ (WK # "plain" => S.gclosed[b] = 1)
C07_Metrics == S.mfail <= Cardinality({j \in Jobs : H.exits[j] >= 1 /\ Outcome[j] # "ok"})
\* acknowledging adapter (every state is a crash point, so these are state invariants):
\* acknowledged only after the worker function returned for the job; only ids the adapter holds; nothing accepted is ever lost
C11_AckAfter == \A j \in S.acked : H.exits[j] >= 1
C11_AckIssued == S.badack = 0
C11_NoLoss == Adapter => \A j \in H.accepted : j \in Range(S.q[1]) \/ (\E u \in S.unacked : u[2] = j) \/ j \in S.acked \/ j \in H.purged
\* recovery: at the end (no step possible) everything accepted has been processed completely, unless an acknowledgement was refused
C11_Recovery == (Adapter /\ ~ENABLED Next /\ S.ws = "running" /\ ~(\E f \in Faults : f[1] = "ack")) => \A j \in H.accepted : j \in S.acked \/ j \in H.purged
C02_Bound == Cardinality(Inflight) <= H.concMax
\* once TunePool(n) has returned and the jobs that were Processing then have finished, at most n jobs are in flight
\* (until the next TunePool begins to return: only one controller tunes in the configurations)
C02_TuneBound == (H.tb.n > 0 /\ S.conc = H.tb.n /\ \A j \in H.tb.old : S.jst[j] # "processing") => Cardinality({j \in Jobs : S.jst[j] = "processing"}) <= H.tb.n
C09_PauseBound == H.epoch = "pause" => H.pauseStarts <= H.concMax
C17_Bounds == S.cur >= 0 /\ S.cur <= H.concMax /\ S.mcomp <= S.msucc + S.mfail
C18_PoolBound == Cardinality({g \in PGs : S.pc[g] \notin {"unborn", "dead"}}) <= H.concMax + 1
\* at rest a running worker keeps at least one idle pool worker
C18_IdleAtRest == (~ENABLED Next /\ S.ws = "running") => Len(S.idle) >= 1
\* a node is owned by exactly one party: idle list, cache, or a goroutine working on a job
NodeOwnership == /\ \A i, k \in DOMAIN S.idle : i # k => S.idle[i] # S.idle[k]
                 /\ Range(S.idle) \cap S.cache = {}
\* at most one live dispatcher may dispatch
OneLoop == Cardinality({d \in Disps : S.pc[d] \notin {"unborn", "dead", "loop.exit"} /\ MayDispatch(d)}) <= 1
Rank(s) == CASE s = "created" -> 0 [] s = "queued" -> 1 [] s = "processing" -> 2 [] s = "finished" -> 3 [] s = "closed" -> 4
C16_Forward == [][Adapter \/ \A j \in Jobs : Rank(S.jst'[j]) >= Rank(S.jst[j])]_vars      \* (an adapter entry is parsed into a new job object at every delivery)

\* ---- finite-trace liveness: a state without successor must be a legitimate end
AllDone == \A c \in Clients : S.pc[c] = "done"
Quiet == ~ENABLED Internal
\* when nothing internal can move and the worker is running, nothing accepted is left over and no client sleeps
C03_NoStall == (~ENABLED Next /\ S.ws = "running") =>
                  /\ \A j \in H.accepted : Settled(j) \/ j \in H.cancelNil
                  /\ QTot = 0 /\ S.cur = 0
                  /\ AllDone
C06_Returns == ~ENABLED Next => \A c \in Clients : S.pc[c] \in {"wuf.cw", "wuf.wait", "wuf.locked", "wuf.woken"} =>
                   QTot > 0 /\ ~(S.loc[c].solo /\ Op(c).op \in {"PauseAndWait", "Stop", "Restart"})
C05_Returns == ~ENABLED Next => \A c \in Clients : (S.pc[c] = "call" /\ HasOp(c) /\ Op(c).op = "Wait") => ~Settled(Op(c).job) \/ S.jwg[Op(c).job] > 0
\* temporal (FairSpec): every client finishes its script when the script leaves the worker running
C03_Live == <>[](AllDone)

\* Behaviours the gate scheduler can reproduce exactly: a process standing at an internal label (no hook in the code there) moves on
\* before anybody else does.  Used as ACTION_CONSTRAINT when a counterexample is to be replayed on the real code (tools/cex2corpus.py).
AutoLabels == {"i.wuf", "i.pause", "i.resume", "i.stop.fin", "i.stop", "i.stop2", "i.stopall", "i.restart", "i.rs.nodes", "i.rs2", "i.start", "i.tune.loop",
               "i.purge.loop", "i.reap.next", "i.loop", "i.loop.lock", "i.disp.lock", "i.start.2", "i.start.notify", "i.addall"}
Moved(p) == <<S'.pc[p], S'.loc[p], S'.stk[p]>> # <<S.pc[p], S.loc[p], S.stk[p]>>
\* (the guards of the steps that leave an internal label, spelled out: cheaper than ENABLED)
AutoReady(p) == /\ S.pc[p] \in AutoLabels
                /\ S.pc[p] \in {"i.stop", "i.restart"} => S.lc = "none"
                /\ S.pc[p] \in {"i.wuf", "i.loop.lock", "i.disp.lock", "i.start.notify"} => MxFree
                /\ S.pc[p] = "i.start.2" => (Expiry => MxFree)
GateLike == (\E p \in Procs : AutoReady(p)) => (\E p \in Procs : S.pc[p] \in AutoLabels /\ Moved(p))
View == S
=============================================================================
