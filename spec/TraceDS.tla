------------------------------ MODULE TraceDS ------------------------------
(* Validates operation logs of the real queue data structures and of the queue manager against QueueDS.
   One line per operation with its result (and, for the small-capacity FIFO runs, the concrete
   read/write indexes and capacities of the chunks).  Episodes are concatenated ("reset" lines). *)
EXTENDS QueueDS, Json, IOUtils

Tr == ndJsonDeserialize(IOEnv.TRACE)
CONSTANT Chunked        \* TRUE: the FIFO runs with capacities InitCap/MaxCap and logs its chunks
VARIABLES l, pset, pcount, bad
tvars == <<fvars, l, pset, pcount, bad>>

TInit == FInit /\ l = 1 /\ pset = {} /\ pcount = 0 /\ bad = {}

ChunkProj == [i \in DOMAIN chunks |-> <<chunks[i].r, chunks[i].w, chunks[i].cap>>]
\* a queue that hands out a wrong element, none, or one it does not hold has lost or duplicated a job (C01) and broken the order (C04)
Fail(e, why) == bad' = bad \cup {<<why, e.ep, l>>} \cup (IF why \in {"C04_FifoOrder", "C04_PrioOrder", "C04_DequeueFromEmpty", "C04_Values"} THEN {<<"C01_QueueKeepsAll", e.ep, l>>} ELSE {})

Step(e) ==
  CASE e.op = "reset" ->
         /\ chunks' = <<NewChunk(InitCap)>> /\ model' = <<>> /\ nops' = 0 /\ lastRes' = <<"init">>
         /\ pset' = {} /\ pcount' = 0 /\ UNCHANGED bad
    [] e.ds = "fifo" /\ e.op = "enq" ->
         /\ IF Chunked THEN FEnq(e.v) ELSE (model' = Append(model, e.v) /\ UNCHANGED <<chunks, nops, lastRes>>)
         /\ UNCHANGED <<pset, pcount>>
         /\ IF ~e.ok THEN Fail(e, "C04_EnqueueRefused")
            ELSE IF Chunked /\ e.chunks # [i \in DOMAIN chunks' |-> <<chunks'[i].r, chunks'[i].w, chunks'[i].cap>>] THEN Fail(e, "Conf_ChunkLayout")
            ELSE UNCHANGED bad
    [] e.ds = "fifo" /\ e.op = "deq" ->
         /\ IF Chunked THEN FDeq ELSE (model' = (IF model = <<>> THEN model ELSE Tail(model)) /\ UNCHANGED <<chunks, nops, lastRes>>)
         /\ UNCHANGED <<pset, pcount>>
         /\ IF model = <<>> THEN (IF e.ok THEN Fail(e, "C04_DequeueFromEmpty") ELSE UNCHANGED bad)
            ELSE IF ~e.ok \/ e.v # Head(model) THEN Fail(e, "C04_FifoOrder")
            ELSE IF Chunked /\ e.chunks # [i \in DOMAIN chunks' |-> <<chunks'[i].r, chunks'[i].w, chunks'[i].cap>>] THEN Fail(e, "Conf_ChunkLayout")
            ELSE UNCHANGED bad
    [] e.ds = "fifo" /\ e.op = "purge" ->
         /\ IF Chunked THEN FPurge ELSE (model' = <<>> /\ UNCHANGED <<chunks, nops, lastRes>>)
         /\ UNCHANGED <<pset, pcount, bad>>
    [] e.ds \in {"fifo", "prio"} /\ e.op = "len" ->
         /\ UNCHANGED <<fvars, pset, pcount>>
         /\ IF e.v # (IF e.ds = "fifo" THEN Len(model) ELSE Cardinality(pset)) THEN Fail(e, "C17_LenExact") ELSE UNCHANGED bad
    [] e.ds = "fifo" /\ e.op = "values" ->
         /\ UNCHANGED <<fvars, pset, pcount>>
         /\ IF e.items # model THEN Fail(e, "C04_Values") ELSE UNCHANGED bad
    [] e.ds = "fifo" /\ e.op = "lenrace" ->
         /\ UNCHANGED <<fvars, pset, pcount>>
         /\ IF e.v < 0 \/ e.v > e.hi THEN Fail(e, "C17_LenBounds") ELSE UNCHANGED bad
    [] e.ds = "prio" /\ e.op = "enq" ->
         /\ pset' = pset \cup {<<e.v, e.prio, pcount>>} /\ pcount' = pcount + 1 /\ UNCHANGED fvars
         /\ IF ~e.ok THEN Fail(e, "C04_EnqueueRefused") ELSE UNCHANGED bad
    [] e.ds = "prio" /\ e.op = "deq" ->
         /\ UNCHANGED <<fvars, pcount>>
         /\ IF pset = {} THEN pset' = pset /\ (IF e.ok THEN Fail(e, "C04_DequeueFromEmpty") ELSE UNCHANGED bad)
            ELSE /\ pset' = pset \ {PMin(pset)}
                 /\ IF ~e.ok \/ e.v # PMin(pset)[1] THEN Fail(e, "C04_PrioOrder") ELSE UNCHANGED bad
    [] e.ds = "prio" /\ e.op = "purge" ->
         /\ pset' = {} /\ UNCHANGED <<fvars, pcount, bad>>       \* the insertion counter is not reset
    [] e.ds = "mgr" ->
         /\ UNCHANGED <<fvars, pset, pcount>>
         /\ CASE e.op = "rr" -> IF <<e.res, e.cur2>> # RoundRobin(e.lens, e.cur) THEN Fail(e, "C15_RoundRobin") ELSE UNCHANGED bad
              [] e.op = "max" -> IF e.res \notin MaxLenAllowed(e.lens) THEN Fail(e, "C15_MaxLen") ELSE UNCHANGED bad
              [] e.op = "min" -> IF e.res \notin MinLenAllowed(e.lens) THEN Fail(e, "C15_MinLen") ELSE UNCHANGED bad
              [] e.op = "len" -> IF e.res # SumLens(e.lens) THEN Fail(e, "C17_ManagerLen") ELSE UNCHANGED bad
              [] OTHER -> UNCHANGED bad
    [] OTHER -> UNCHANGED <<fvars, pset, pcount, bad>>

TNext == l <= Len(Tr) /\ Step(Tr[l]) /\ l' = l + 1
TSpec == TInit /\ [][TNext]_tvars
Report == l <= Len(Tr) \/ PrintT(<<"VERIF-BAD", bad>>)
Consumed == TLCGet("stats").diameter - 1 = Len(Tr)
=============================================================================
