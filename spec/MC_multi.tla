------------------------------ MODULE MC_multi ------------------------------
(* Several queues bound to one worker (C15, C17, C14 on the model): VarMQ with a monitor variable F that observes
   the dispatcher's dequeues.  F is a pure observer: FNext is a function of S and S' and never constrains them. *)
EXTENDS MC_core

VARIABLE F      \* [on |-> every registered queue has been non-empty since counting began, cnt |-> dispatches per queue since then]
mvars == <<vars, F>>

Reg(s) == 1..s.nreg
AllNonEmpty(s) == s.nreg >= 1 /\ \A k \in Reg(s) : Len(s.q[k]) > 0
Zero == [k \in Queues |-> 0]
\* the dispatcher step that took a job out of a queue
DispDeq(d) == S.pc[d] = "i.disp.lock" /\ S'.pc[d] = "disp.deq" /\ S'.loc[d].j # 0
FInit == F = [on |-> FALSE, cnt |-> Zero]
FNext ==
  LET took == \E d \in Disps : DispDeq(d)
      kq == IF took THEN QOf[S'.loc[CHOOSE d \in Disps : DispDeq(d)].j] ELSE 0
      c1 == IF took /\ F.on THEN [F.cnt EXCEPT ![kq] = @ + 1] ELSE F.cnt
  IN F' = IF ~AllNonEmpty(S') \/ S'.nreg # S.nreg THEN [on |-> FALSE, cnt |-> Zero]     \* a queue ran empty (or was purged), or one was bound
          ELSE IF ~F.on THEN [on |-> TRUE, cnt |-> Zero]
          ELSE [on |-> TRUE, cnt |-> c1]
SpecM == Init /\ FInit /\ [][Next /\ FNext]_mvars
FairSpecM == SpecM /\ \A p \in Clients \cup Disps \cup PGs \cup Listeners : WF_mvars(ProcStep(p) /\ FNext)

\* ---- C15 on the model
\* round robin: while all bound queues stay non-empty each receives an equal share of the dispatches
C15_Fair == (Strategy = "rr" /\ F.on) => \A a, b \in Reg(S) : F.cnt[a] - F.cnt[b] \in {-1, 0, 1}
\* every dispatch takes the head of a queue the strategy allows: MaxLen a longest queue, MinLen a shortest non-empty one,
\* RoundRobin the next non-empty queue in binding order after the previously served one
LenMax(s) == Max({Len(s.q[k]) : k \in Reg(s)})
C15_Choice ==
  [][\A d \in Disps : DispDeq(d) =>
        LET k == QOf[S'.loc[d].j] IN
          /\ k \in Reg(S) /\ S.q[k] # <<>> /\ S'.loc[d].j = Head(S.q[k])
          /\ Strategy = "max" => Len(S.q[k]) = LenMax(S)
          /\ Strategy = "min" => \A k2 \in Reg(S) : Len(S.q[k2]) > 0 => Len(S.q[k]) <= Len(S.q[k2])
          /\ Strategy = "rr" => \A k2 \in Reg(S) : (Len(S.q[k2]) > 0 /\ k2 # k) =>
                                   \* k2 is not strictly between the cursor and k in cyclic binding order
                                   ~(((k2 - 1 - S.rr) % S.nreg) < ((k - 1 - S.rr) % S.nreg))]_mvars
\* C17: the worker's pending count is the sum over its queues; only registered queues hold jobs
C17_Sum == /\ QTot = Cardinality({j \in Jobs : \E k \in Queues : j \in Range(S.q[k])})
           /\ \A k \in Queues : k > S.nreg => S.q[k] = <<>>
\* C14: binding a queue to a worker that has been started never changes its state
\* (the binder's own steps: Register, then the deferred start() - whatever other goroutines do meanwhile is theirs)
C14_BindKeepsState == [][\A c \in Clients : (S.pc[c] \in {"mgr.register", "i.start"} /\ HasOp(c) /\ Op(c).op = "Bind" /\ S.ws # "initiated"
                                              /\ <<S'.pc[c], S'.ip[c]>> # <<S.pc[c], S.ip[c]>>) => S'.ws = S.ws]_mvars
\* C09 (order part): what was pending in a queue is processed in that queue's order
ViewM == <<S, F>>
=============================================================================
