------------------------------ MODULE MC_dist ------------------------------
(* Model-checking instances of Dist (C13): constants are chosen in the cfg files among the operators below. *)
EXTENDS Dist
Conc1 == [c \in Consumers |-> 1]
Conc12 == [c \in Consumers |-> IF c = 1 THEN 1 ELSE 2]
ScriptA == ("p1" :> <<1, 2>>)
ScriptB == ("p1" :> <<1, 2>>) @@ ("p2" :> <<3>>)
ScriptC == ("p1" :> <<1>>)
Prio0 == [x \in Items |-> 0]
PrioA == [x \in Items |-> IF x = 2 THEN -1 ELSE 0]
Pre0 == <<>>
Pre1 == <<9>>
Pre2 == <<8, 9>>
=============================================================================
