------------------------------ MODULE ErrChan ------------------------------
(***************************************************************************)
(* The worker's error channel: sendError (pool goroutines, event loop),    *)
(* Errs() readers, and Stop / Restart, which close and replace the channel *)
(* (worker.go: sendError, Errs, closeChannels, Restart).  VarMQ.tla takes  *)
(* sendError as part of one action; this module looks inside it.           *)
(*                                                                         *)
(*   sendError:  mx.RLock(); select { case errorChan <- err: default: };   *)
(*               mx.RUnlock()                                              *)
(*   Errs():     mx.RLock(); c := errorChan; mx.RUnlock(); return c        *)
(*   Stop:       mx.Lock(); close(errorChan); errorChan = nil; mx.Unlock() *)
(*   Restart:    mx.Lock(); errorChan = make(chan error, 1); mx.Unlock()   *)
(*                                                                         *)
(* Variant = "drop" is the code.  Variant = "keep" is the change two       *)
(* independent reviewers proposed as "keep the most recent error" (seeded  *)
(* changes B_C03_2 / D_C07_1): when the buffer is full, take the stale     *)
(* error out and then send - a blocking send under the read lock.  TLC     *)
(* shows the sender that never returns (and the Stop that never gets the   *)
(* write lock); the flood episodes of the C03 / C07 checks are the         *)
(* executions of the real code in which that hang is observed.             *)
(***************************************************************************)
EXTENDS Integers, Sequences, FiniteSets, TLC

CONSTANTS
  Senders,    \* pool goroutines (and the event loop) that report an error
  NSend,      \* errors each of them reports
  HasReader,  \* BOOLEAN: somebody ranges over Errs()
  Lifecycle,  \* BOOLEAN: a client calls Stop and then Restart meanwhile
  Variant     \* "drop" | "keep"

Cap == 1
NIL == 0

VARIABLES
  cur,      \* the worker's errorChan: a channel id, or NIL
  buf,      \* [channel id -> Seq of errors]
  closed,   \* set of closed channel ids
  nextId,   \* next channel id
  mxR,      \* number of holders of the read lock
  mxW,      \* TRUE while somebody holds the write lock
  pc,       \* [Senders -> label]
  left,     \* [Senders -> errors still to report]
  rch,      \* the channel the reader ranges over (NIL: none yet / closed and left)
  cpc,      \* label of the lifecycle client
  crashed   \* send on a closed channel
vars == <<cur, buf, closed, nextId, mxR, mxW, pc, left, rch, cpc, crashed>>

Init ==
  /\ cur = 1 /\ buf = [c \in {1} |-> <<>>] /\ closed = {} /\ nextId = 2
  /\ mxR = 0 /\ mxW = FALSE
  /\ pc = [s \in Senders |-> "idle"] /\ left = [s \in Senders |-> NSend]
  /\ rch = NIL /\ cpc = (IF Lifecycle THEN "stop" ELSE "done") /\ crashed = FALSE

---- \* sendError
S_RLock(s) ==
  /\ pc[s] = "idle" /\ left[s] > 0 /\ ~mxW
  /\ mxR' = mxR + 1 /\ pc' = [pc EXCEPT ![s] = "locked"]
  /\ UNCHANGED <<cur, buf, closed, nextId, mxW, left, rch, cpc, crashed>>

\* select { case errorChan <- err: default: }  (a nil channel is never ready)
S_Offer(s) ==
  /\ pc[s] = "locked"
  /\ IF cur # NIL /\ cur \in closed
       THEN crashed' = TRUE /\ pc' = [pc EXCEPT ![s] = "unlock"] /\ UNCHANGED buf
       ELSE /\ UNCHANGED crashed
            /\ IF cur # NIL /\ Len(buf[cur]) < Cap
                 THEN buf' = [buf EXCEPT ![cur] = Append(@, s)] /\ pc' = [pc EXCEPT ![s] = "unlock"]
                 ELSE /\ UNCHANGED buf
                      /\ pc' = [pc EXCEPT ![s] = IF Variant = "keep" /\ cur # NIL THEN "drain" ELSE "unlock"]
  /\ UNCHANGED <<cur, closed, nextId, mxR, mxW, left, rch, cpc>>

\* "keep": select { case <-errorChan: default: }
S_Drain(s) ==
  /\ pc[s] = "drain"
  /\ buf' = [buf EXCEPT ![cur] = IF @ = <<>> THEN @ ELSE Tail(@)]
  /\ pc' = [pc EXCEPT ![s] = "bsend"]
  /\ UNCHANGED <<cur, closed, nextId, mxR, mxW, left, rch, cpc, crashed>>

\* "keep": errorChan <- err   (blocks while the buffer is full)
S_BlockingSend(s) ==
  /\ pc[s] = "bsend" /\ Len(buf[cur]) < Cap
  /\ buf' = [buf EXCEPT ![cur] = Append(@, s)]
  /\ pc' = [pc EXCEPT ![s] = "unlock"]
  /\ UNCHANGED <<cur, closed, nextId, mxR, mxW, left, rch, cpc, crashed>>

S_RUnlock(s) ==
  /\ pc[s] = "unlock"
  /\ mxR' = mxR - 1 /\ left' = [left EXCEPT ![s] = @ - 1]
  /\ pc' = [pc EXCEPT ![s] = "idle"]
  /\ UNCHANGED <<cur, buf, closed, nextId, mxW, rch, cpc, crashed>>

---- \* a reader: for err := range w.Errs()
R_Errs ==
  /\ HasReader /\ rch = NIL /\ cur # NIL /\ ~mxW
  /\ rch' = cur
  /\ UNCHANGED <<cur, buf, closed, nextId, mxR, mxW, pc, left, cpc, crashed>>
R_Recv ==
  /\ rch # NIL /\ buf[rch] # <<>>
  /\ buf' = [buf EXCEPT ![rch] = Tail(@)]
  /\ UNCHANGED <<cur, closed, nextId, mxR, mxW, pc, left, rch, cpc, crashed>>
R_Closed ==      \* the range loop ends; the reader asks for the channel again
  /\ rch # NIL /\ rch \in closed /\ buf[rch] = <<>>
  /\ rch' = NIL
  /\ UNCHANGED <<cur, buf, closed, nextId, mxR, mxW, pc, left, cpc, crashed>>

---- \* Stop; Restart
C_StopLock ==
  /\ cpc = "stop" /\ ~mxW /\ mxR = 0
  /\ mxW' = TRUE /\ cpc' = "stop.close"
  /\ UNCHANGED <<cur, buf, closed, nextId, mxR, pc, left, rch, crashed>>
C_StopClose ==
  /\ cpc = "stop.close"
  /\ closed' = closed \cup {cur} /\ cur' = NIL /\ mxW' = FALSE /\ cpc' = "restart"
  /\ UNCHANGED <<buf, nextId, mxR, pc, left, rch, crashed>>
C_RestartLock ==
  /\ cpc = "restart" /\ ~mxW /\ mxR = 0
  /\ mxW' = TRUE /\ cpc' = "restart.make"
  /\ UNCHANGED <<cur, buf, closed, nextId, mxR, pc, left, rch, crashed>>
C_RestartMake ==
  /\ cpc = "restart.make"
  /\ cur' = nextId /\ nextId' = nextId + 1 /\ buf' = [c \in DOMAIN buf \cup {nextId} |-> IF c = nextId THEN <<>> ELSE buf[c]]
  /\ mxW' = FALSE /\ cpc' = "done"
  /\ UNCHANGED <<closed, mxR, pc, left, rch, crashed>>

AllDone == (\A s \in Senders : pc[s] = "idle" /\ left[s] = 0) /\ cpc = "done"
Finished == AllDone /\ UNCHANGED vars

Next ==
  \/ \E s \in Senders : S_RLock(s) \/ S_Offer(s) \/ S_Drain(s) \/ S_BlockingSend(s) \/ S_RUnlock(s)
  \/ R_Errs \/ R_Recv \/ R_Closed
  \/ C_StopLock \/ C_StopClose \/ C_RestartLock \/ C_RestartMake
  \/ Finished

Spec == Init /\ [][Next]_vars
\* the reader is under no obligation to read: no fairness for it
FairSpec == Spec /\ \A s \in Senders : WF_vars(S_RLock(s) \/ S_Offer(s) \/ S_Drain(s) \/ S_BlockingSend(s) \/ S_RUnlock(s))
                 /\ WF_vars(C_StopLock \/ C_StopClose \/ C_RestartLock \/ C_RestartMake)

---- \* properties
TypeOK == /\ cur \in (DOMAIN buf) \cup {NIL} /\ mxR \in 0..Cardinality(Senders) /\ mxW \in BOOLEAN
          /\ \A c \in DOMAIN buf : Len(buf[c]) <= Cap
\* C07 / C14: reporting an error never panics (no send on a closed channel): the channel is closed and forgotten in one critical section
NoSendOnClosed == ~crashed
\* the write lock excludes the read lock
LockExclusion == ~(mxW /\ mxR > 0)
\* C07 (a failing job does not disable the pool) / C03: every sendError returns, whether or not anybody reads Errs(),
\* and Stop / Restart get the lock
SendersReturn == <>[]AllDone
\* a sender never waits while it holds the read lock ("drop": there is no such label)
NeverWaitsUnderLock == \A s \in Senders : pc[s] # "bsend"
=============================================================================
