------------------------------- MODULE Obs -------------------------------
(***************************************************************************)
(* Observation-level trace specification: the verdict pass.               *)
(*                                                                         *)
(* It consumes ONLY what a client of varmq can observe (calls and returns  *)
(* of the public API, entries/exits of the worker function, calls on a     *)
(* user-supplied adapter, the harness' quiescence snapshots, crashes and   *)
(* race reports; in gated runs also the result of every dequeue), rebuilds *)
(* the history variables H from it, and states the given properties       *)
(* C01..C19 as state invariants over H.  It can never get stuck: it only   *)
(* records what happened.  Episodes are concatenated; a "reset" line       *)
(* starts the next one.                                                    *)
(*                                                                         *)
(* Soundness under overlap (free-running traces): "call" is logged before  *)
(* the call starts, "ret" after it returned, "enter" after the worker      *)
(* function was entered, "exit" before it returns.  Every formula below    *)
(* uses only facts that hold under these rules, so it cannot fail on an    *)
(* execution in which the property holds.                                  *)
(***************************************************************************)
EXTENDS Integers, Sequences, FiniteSets, TLC, Json, IOUtils, Lifecycle

Trace == ndJsonDeserialize(IOEnv.TRACE)

VARIABLES
  l,        \* index of the next line to consume
  hdr,      \* header (reset line) of the current episode
  E,        \* the line consumed last
  sub,      \* job -> "none" | "calling" | "acc" | "rej" | "unk"
  addCall, addRet,   \* job -> line index of call / ret of its submission (0: not yet)
  enters, exits, enterAt, exitAt,   \* job -> counts and line indexes
  deqd,     \* job -> BOOLEAN: seen leaving its queue (gated traces only)
  closeStarted, closeNil,   \* job -> BOOLEAN: a Close was called / returned nil
  mp,       \* job -> BOOLEAN: may have been removed by a Purge
  waitRet,  \* job -> BOOLEAN: a Wait / Result on its handle has returned
  lastRes,  \* job -> <<>> or <<v, errclass, errkey>> of the first Result/Err return
  rank,     \* job -> highest status rank of a sample that has returned
  pend,     \* client -> pending call record, or NoCall
  R,        \* the call record of the call whose "ret" was consumed last
  ctlPending,  \* number of control calls in progress
  ws,       \* logical worker state "initiated" | "running" | "paused" | "stopped" | "unknown"
  epoch,    \* "open" | "strict" | "pause" : may the worker function start?
  pauseStarts, \* number of entries since a plain Pause closed the epoch
  concNow,  \* set of concurrency values possibly in effect
  concMax,  \* largest concurrency ever possibly in effect
  concSince,   \* job -> largest concurrency possibly in effect since its submission began
  qclosed,  \* queue -> "open" | "closing" | "closed"
  lastExitAt,  \* line index of the latest exit
  lastDeqAt,   \* line index of the latest dequeue
  rrPrev,   \* the cursor before the latest dequeue
  rr,       \* round-robin cursor reconstructed from the dequeues (1-based index of next queue)
  crashed, raced,
  ref,      \* state of the reference lifecycle machine ("unknown" once control calls have overlapped)
  started,  \* the worker has been started at least once (its context listener exists)
  overlap,  \* two state-changing control calls have been in progress at the same time (their combined effect is unspecified)
  pcancel,  \* the user's context has been cancelled (the listener may stop the worker at any later moment)
  tune,     \* [n, old]: the limit of the last TunePool that has returned alone (0: none / uncertain) and the jobs dispatched before it
  consOf,   \* job -> consumer that ran it (distributed queues)
  ad        \* adapter bookkeeping

vars == <<l, hdr, E, sub, addCall, addRet, enters, exits, enterAt, exitAt, deqd, closeStarted, closeNil, mp,
          waitRet, lastRes, rank, pend, R, ctlPending, ws, epoch, pauseStarts, concNow, concMax, concSince,
          qclosed, lastExitAt, lastDeqAt, rr, rrPrev, crashed, raced, overlap, pcancel, ref, started, tune, consOf, ad>>

NoTune == [n |-> 0, old |-> {}, keep |-> 0]      \* keep: the limit set by the last TunePool that returned alone, which Stop / Restart / Bind must not change
NoCall == [op |-> "none", job |-> 0, qi |-> 0, b |-> 0, n |-> 0, at |-> 0, snap |-> {}, clean |-> FALSE, entered |-> {},
           solo |-> FALSE, quiet |-> FALSE, ref |-> "unknown", same |-> FALSE, rankFloor |-> -1, closedBefore |-> FALSE, qclosedBefore |-> FALSE, waitedBefore |-> FALSE]
NoHdr == [ev |-> "reset", ep |-> "", mode |-> "gated", wk |-> "plain", conc |-> 1, ncpu |-> 1, queues |-> <<>>, jobs |-> <<>>,
          batches |-> <<>>, clients |-> <<>>, expiry |-> 0, ratio |-> 0, ctx |-> FALSE, strategy |-> "rr",
          idgen |-> FALSE, wsids |-> FALSE, quiet |-> FALSE, nobind |-> FALSE, family |-> "", consumers |-> 1, preload |-> <<>>]

SumSeq(s) == LET F[i \in 0..Len(s)] == IF i = 0 THEN 0 ELSE F[i - 1] + s[i] IN F[Len(s)]
Max(S) == CHOOSE x \in S : \A y \in S : y <= x
Min(S) == CHOOSE x \in S : \A y \in S : y >= x
Range(s) == {s[i] : i \in DOMAIN s}

Jobs == {hdr.jobs[i].key : i \in DOMAIN hdr.jobs}
JobRec(j) == CHOOSE r \in Range(hdr.jobs) : r.key = j
QOf(j) == JobRec(j).q          \* 1-based queue index
PrioOf(j) == JobRec(j).prio
BatchOf(j) == JobRec(j).b      \* 0: single job
OutOf(j) == JobRec(j).out
Clients == Range(hdr.clients)
Queues == DOMAIN hdr.queues
Batches == {hdr.batches[i].b : i \in DOMAIN hdr.batches}
ItemsOf(b) == {j \in Jobs : BatchOf(j) = b}
Gated == hdr.mode = "gated"
IsPrioQ(q) == hdr.queues[q] \in {"prio", "pprio", "dprio"}
IsAdapterQ(q) == hdr.queues[q] \in {"pfifo", "pprio", "dfifo", "dprio"}

Inflight == {j \in Jobs : enters[j] > exits[j]}
Excused(j) == closeStarted[j] \/ mp[j] \/ sub[j] \in {"rej", "unk", "none"}
Accepted(j) == sub[j] = "acc"
Settled(j) == exits[j] >= 1 \/ Excused(j)
\* a job that has been seen entering the worker function was not cancelled: only its exit settles it
SettledStrict(j) == exits[j] >= 1 \/ (enters[j] = 0 /\ Excused(j))

ControlOps == {"Pause", "PauseAndWait", "Resume", "Stop", "WaitAndStop", "Restart", "CancelCtx", "Bind"}
BarrierOps == {"WUF", "PauseAndWait", "Stop", "WaitAndStop", "Restart"}
Rank(s) == CASE s = "Created" -> 0 [] s = "Queued" -> 1 [] s = "Processing" -> 2 [] s = "Finished" -> 3 [] s = "Closed" -> 4 [] OTHER -> -1
NormConc(n) == IF n < 1 THEN hdr.ncpu ELSE n

-----------------------------------------------------------------------------
(* Initial state / reset *)

Blank(h) ==
  /\ hdr' = h
  /\ sub' = [j \in {h.jobs[i].key : i \in DOMAIN h.jobs} |-> IF \E i \in DOMAIN h.preload : h.preload[i] = j THEN "acc" ELSE "none"]
  /\ addCall' = [j \in DOMAIN sub' |-> 0] /\ addRet' = [j \in DOMAIN sub' |-> 0]
  /\ enters' = [j \in DOMAIN sub' |-> 0] /\ exits' = [j \in DOMAIN sub' |-> 0]
  /\ enterAt' = [j \in DOMAIN sub' |-> 0] /\ exitAt' = [j \in DOMAIN sub' |-> 0]
  /\ deqd' = [j \in DOMAIN sub' |-> FALSE]
  /\ closeStarted' = [j \in DOMAIN sub' |-> FALSE] /\ closeNil' = [j \in DOMAIN sub' |-> FALSE]
  /\ mp' = [j \in DOMAIN sub' |-> FALSE] /\ waitRet' = [j \in DOMAIN sub' |-> FALSE]
  /\ lastRes' = [j \in DOMAIN sub' |-> <<>>] /\ rank' = [j \in DOMAIN sub' |-> -1]
  /\ pend' = [c \in Range(h.clients) |-> NoCall] /\ R' = NoCall
  /\ ctlPending' = 0
  /\ ws' = IF h.nobind THEN "initiated" ELSE "running"
  /\ epoch' = "open" /\ pauseStarts' = 0
  /\ concNow' = {NormConc(h.conc)} /\ concMax' = NormConc(h.conc)
  /\ concSince' = [j \in DOMAIN sub' |-> 0] /\ consOf' = [j \in DOMAIN sub' |-> 0]
  /\ qclosed' = [q \in DOMAIN h.queues |-> "open"]
  /\ lastExitAt' = 0 /\ lastDeqAt' = 0 /\ rr' = 1 /\ rrPrev' = 1
  /\ crashed' = FALSE /\ raced' = FALSE /\ pcancel' = FALSE /\ overlap' = FALSE /\ ref' = (IF h.nobind THEN "initiated" ELSE "running") /\ started' = ~h.nobind /\ tune' = NoTune
  /\ ad' = [pending |-> <<>>, unacked |-> {}, acked |-> {}, issued |-> {}, badack |-> 0, earlyack |-> 0, enq |-> {}, lost |-> {}, purged |-> {}, notified |-> 0, unann |-> {}]

Init ==
  /\ l = 1 /\ E = NoHdr /\ hdr = NoHdr
  /\ sub = <<>> /\ addCall = <<>> /\ addRet = <<>> /\ enters = <<>> /\ exits = <<>> /\ enterAt = <<>> /\ exitAt = <<>>
  /\ deqd = <<>> /\ closeStarted = <<>> /\ closeNil = <<>> /\ mp = <<>> /\ waitRet = <<>> /\ lastRes = <<>> /\ rank = <<>>
  /\ pend = <<>> /\ R = NoCall /\ ctlPending = 0 /\ ws = "initiated" /\ epoch = "open" /\ pauseStarts = 0
  /\ concNow = {1} /\ concMax = 1 /\ concSince = <<>> /\ consOf = <<>> /\ qclosed = <<>> /\ lastExitAt = 0 /\ lastDeqAt = 0 /\ rr = 1 /\ rrPrev = 1
  /\ crashed = FALSE /\ raced = FALSE /\ pcancel = FALSE /\ overlap = FALSE /\ ref = "initiated" /\ started = FALSE /\ tune = NoTune
  /\ ad = [pending |-> <<>>, unacked |-> {}, acked |-> {}, issued |-> {}, badack |-> 0, earlyack |-> 0, enq |-> {}, lost |-> {}, purged |-> {}, notified |-> 0, unann |-> {}]

-----------------------------------------------------------------------------
(* One step per trace line *)

U(v) == UNCHANGED v
jobVars == <<sub, addCall, addRet, enters, exits, enterAt, exitAt, deqd, closeStarted, closeNil, mp, waitRet, lastRes, rank, concSince, consOf>>
ctlVars == <<pend, R, ctlPending, ws, epoch, pauseStarts, concNow, concMax, qclosed, pcancel, overlap, ref, started, tune>>
Retune == {"TunePool", "Restart", "Stop", "WaitAndStop", "Bind"}      \* calls after which the effective limit / the set of dispatchers is uncertain
miscVars == <<lastExitAt, lastDeqAt, rr, rrPrev, crashed, raced, ad>>

\* jobs submitted by a call: Add -> {job}; AddAll -> items
SubmitSet(op, job, items) == IF op = "Add" THEN {job} ELSE IF op = "AddAll" THEN Range(items) ELSE {}
StateChanging == {"Pause", "PauseAndWait", "Stop", "WaitAndStop", "Restart", "CancelCtx", "Resume"}
Heavy == {"Stop", "WaitAndStop", "Restart", "Bind", "CancelCtx"}
Unclean(pc) == IF pc.op = "none" THEN pc ELSE [pc EXCEPT !.clean = FALSE, !.solo = FALSE, !.ref = "unknown"]
\* control calls that can make the worker dispatch (again): a barrier call overlapped only by other closing calls (Pause, PauseAndWait,
\* Stop, WaitAndStop, context cancellation) still guarantees at its return that nothing is executing and nothing starts
Opening == {"Resume", "Restart", "Bind", "TunePool"}
Unquiet(pc) == IF pc.op = "none" THEN pc ELSE [pc EXCEPT !.quiet = FALSE]

OnCall(e) ==
  LET js == SubmitSet(e.op, e.job, e.items) \cap Jobs
      isCtl == e.op \in ControlOps \/ e.op = "TunePool"
      pc == [op |-> e.op, job |-> e.job, qi |-> e.qi, b |-> e.b, n |-> e.n, at |-> l,
             snap |-> {j \in Jobs : sub[j] = "acc"},
             clean |-> (ws = "running" /\ ctlPending = 0 /\ e.op \notin StateChanging),
             solo |-> (ctlPending = 0),
             quiet |-> (\A c \in Clients : pend[c].op \notin Opening),
             \* (a control call that begins while another one is in progress has no reference state: the machine is about call sequences)
             ref |-> IF overlap \/ pcancel \/ (isCtl /\ ctlPending > 0) THEN "unknown" ELSE ref,
             same |-> (e.op = "TunePool" /\ concNow = {NormConc(e.n)}),
             entered |-> {j \in Jobs : enters[j] > exits[j]},
             rankFloor |-> IF e.job \in Jobs THEN rank[e.job] ELSE -1,
             closedBefore |-> IF e.job \in Jobs THEN closeNil[e.job] \/ waitRet[e.job] ELSE FALSE,
             qclosedBefore |-> IF e.qi \in Queues THEN qclosed[e.qi] = "closed" ELSE FALSE,
             waitedBefore |-> IF e.job \in Jobs THEN waitRet[e.job] ELSE FALSE]
      dirty == e.op \in StateChanging \/ (e.op = "Bind" /\ ws # "running")
  IN
  /\ pend' = [c \in Clients |-> IF c = e.p THEN pc
                                ELSE LET u == IF dirty THEN Unclean(pend[c]) ELSE pend[c] IN IF e.op \in Opening THEN Unquiet(u) ELSE u]
  /\ U(R)
  /\ sub' = [j \in Jobs |-> IF j \in js THEN "calling" ELSE sub[j]]
  /\ addCall' = [j \in Jobs |-> IF j \in js THEN l ELSE addCall[j]]
  /\ concSince' = [j \in Jobs |-> IF j \in js THEN Max(concNow \cup (IF e.op = "TunePool" THEN {NormConc(e.n)} ELSE {}))
                                  ELSE IF e.op = "TunePool" /\ exits[j] = 0 /\ sub[j] # "none" THEN Max({concSince[j], NormConc(e.n)})
                                  ELSE concSince[j]]
  /\ concNow' = IF e.op = "TunePool" THEN concNow \cup {NormConc(e.n)} ELSE concNow
  /\ concMax' = IF e.op = "TunePool" THEN Max({concMax, NormConc(e.n)}) ELSE concMax
  /\ closeStarted' = [j \in Jobs |-> closeStarted[j] \/ (e.op = "Close" /\ e.job = j)]
  \* a Purge may remove every job of its queue that is (being) submitted and has not been seen running
  /\ mp' = [j \in Jobs |-> mp[j]
                 \/ (e.op = "Purge" /\ QOf(j) = e.qi /\ sub[j] \in {"calling", "acc", "unk"} /\ enters[j] = 0)
                 \/ (j \in js /\ \E c \in Clients : pend[c].op = "Purge" /\ pend[c].qi = QOf(j))]
  /\ ctlPending' = IF isCtl THEN ctlPending + 1 ELSE ctlPending
  \* a state-changing control call that begins makes the logical state uncertain until it has returned alone
  /\ ws' = IF dirty THEN "unknown" ELSE ws
  \* a Resume or Restart that begins may let jobs start again
  /\ epoch' = IF e.op \in {"Resume", "Restart"} THEN "open" ELSE epoch
  /\ pauseStarts' = IF e.op \in {"Resume", "Restart"} THEN 0 ELSE pauseStarts
  /\ qclosed' = [q \in Queues |-> IF e.op = "QClose" /\ e.qi = q /\ qclosed[q] = "open" THEN "closing" ELSE qclosed[q]]
  /\ pcancel' = (pcancel \/ (e.op = "CancelCtx" /\ hdr.ctx))
  /\ tune' = IF e.op \in Retune THEN [NoTune EXCEPT !.keep = IF e.op = "TunePool" THEN 0 ELSE tune.keep] ELSE tune
  /\ U(<<ref, started>>)
  \* Stop / Restart / Bind / context cancellation overlapping another state-changing call: the combined effect of such
  \* concurrent lifecycle calls is specified nowhere (the properties quantify over call sequences), nothing is concluded afterwards
  /\ overlap' = (overlap \/ (e.op \in StateChanging \cup {"Bind"} /\ \E c \in Clients : pend[c].op \in StateChanging \cup {"Bind"}
                                 /\ ({e.op, pend[c].op} \cap Heavy # {})))
  /\ U(<<addRet, enters, exits, enterAt, exitAt, deqd, closeNil, waitRet, lastRes, rank, consOf>>)
  /\ U(miscVars)

WsOf(s) == IF s = "Running" THEN "running" ELSE IF s = "Paused" THEN "paused" ELSE IF s = "Stopped" THEN "stopped"
           ELSE IF s = "Initiated" THEN "initiated" ELSE "unknown"

OnRet(e) ==
  LET pc == pend[e.p]
      js == SubmitSet(pc.op, pc.job, e.items) \cap Jobs
      isCtl == pc.op \in ControlOps \/ pc.op = "TunePool"
      alone == pc.solo /\ ctlPending = 1
      othersResuming == FALSE
  IN
  /\ pend' = [pend EXCEPT ![e.p] = NoCall]
  /\ R' = pc
  /\ sub' = [j \in Jobs |->
               IF j \in js /\ pc.op = "Add" THEN (IF e.ok THEN "acc" ELSE "rej")
               ELSE IF j \in js /\ pc.op = "AddAll" THEN
                    \* AddAll does not report per item: an item is certainly rejected if the queue's Close had returned before the call began,
                    \* certainly accepted if no Close of the queue has begun by now, unknown otherwise
                    (IF pc.qclosedBefore THEN "rej"
                     ELSE IF qclosed[QOf(j)] = "open" /\ (\A c \in Clients : pend[c].op # "QClose" \/ pend[c].qi # QOf(j)) THEN "acc" ELSE "unk")
               ELSE sub[j]]
  /\ addRet' = [j \in Jobs |-> IF j \in js THEN l ELSE addRet[j]]
  /\ closeNil' = [j \in Jobs |-> closeNil[j] \/ (pc.op = "Close" /\ pc.job = j /\ e.res = "nil")]
  \* Result/Err return as soon as the outcome has been sent, which is before the job is closed; only Wait implies Closed
  /\ waitRet' = [j \in Jobs |-> waitRet[j] \/ ((pc.op = "Wait" \/ (pc.op = "Result" /\ hdr.wk = "plain")) /\ pc.job = j /\ e.res # "nohandle")
                                           \/ (pc.op = "BatchWait" /\ e.res # "nohandle" /\ BatchOf(j) = pc.b /\ pc.b # 0)]
  /\ lastRes' = [j \in Jobs |-> IF pc.op = "Result" /\ pc.job = j /\ e.res = "val" /\ lastRes[j] = <<>> THEN <<e.v, e.ecls, e.ekey>> ELSE lastRes[j]]
  /\ rank' = [j \in Jobs |-> IF pc.op \in {"Status", "Wait"} /\ pc.job = j /\ e.res # "nohandle" /\ Rank(e.st) > rank[j] THEN Rank(e.st) ELSE rank[j]]
  /\ ctlPending' = IF isCtl THEN ctlPending - 1 ELSE ctlPending
  /\ ws' = IF ~isCtl \/ pc.op = "TunePool" THEN ws
           ELSE IF ~alone \/ pcancel THEN "unknown"
           ELSE IF pc.op = "CancelCtx" THEN ws
           ELSE WsOf(e.wss)
  /\ epoch' = IF pc.op \in {"PauseAndWait", "Stop", "WaitAndStop"} /\ e.res = "nil" /\ (alone \/ (pc.quiet /\ \A c \in Clients : c = e.p \/ pend[c].op \notin Opening)) /\ ~othersResuming THEN "strict"
              ELSE IF pc.op = "Pause" /\ e.res = "nil" /\ alone /\ epoch = "open" /\ e.wss = "Paused" /\ ~othersResuming THEN "pause"
              ELSE epoch
  /\ pauseStarts' = IF pc.op = "Pause" THEN 0 ELSE pauseStarts
  /\ concNow' = IF pc.op = "TunePool" THEN
                   (IF \A c \in Clients : c = e.p \/ pend[c].op # "TunePool" THEN {e.conc} ELSE concNow \cup {e.conc})
                ELSE concNow
  /\ qclosed' = [q \in Queues |-> IF pc.op = "QClose" /\ pc.qi = q THEN "closed" ELSE qclosed[q]]
  /\ ref' = IF pc.op \in ControlOps /\ pc.op # "CancelCtx" THEN (IF pc.ref = "unknown" THEN "unknown" ELSE RefNext(pc.ref, pc.op)) ELSE ref
  /\ started' = (started \/ (pc.op \in {"Bind", "Restart"}) \/ (pc.op = "Resume" /\ e.res = "nil"))
  \* a TunePool that has returned while no other call that changes the limit or the dispatchers was in progress fixes the limit;
  \* the jobs dispatched before it are those seen leaving their queue and not yet finished
  /\ tune' = IF pc.op = "TunePool" /\ e.res = "nil" /\ (\A c \in Clients : c = e.p \/ pend[c].op \notin Retune)
               THEN [n |-> NormConc(pc.n), old |-> {j \in Jobs : deqd[j] /\ exits[j] = 0}, keep |-> NormConc(pc.n)]
               \* a Stop / Restart / Bind that has returned alone leaves the limit where the last TunePool put it
               ELSE IF pc.op \in Retune \ {"TunePool"} /\ alone /\ (\A c \in Clients : c = e.p \/ pend[c].op \notin Retune)
               THEN [n |-> tune.keep, old |-> {j \in Jobs : deqd[j] /\ exits[j] = 0}, keep |-> tune.keep]
               ELSE tune
  /\ U(<<addCall, enters, exits, enterAt, exitAt, deqd, closeStarted, mp, concSince, concMax, pcancel, overlap, consOf>>)
  /\ U(miscVars)

OnEnter(e) ==
  /\ IF e.job \in Jobs
       THEN /\ enters' = [enters EXCEPT ![e.job] = @ + 1]
            /\ enterAt' = [enterAt EXCEPT ![e.job] = IF @ = 0 THEN l ELSE @]
            /\ consOf' = [consOf EXCEPT ![e.job] = e.cons]
       ELSE U(<<enters, enterAt, consOf>>)
  /\ pauseStarts' = IF epoch = "pause" THEN pauseStarts + 1 ELSE pauseStarts
  /\ U(<<sub, addCall, addRet, exits, exitAt, deqd, closeStarted, closeNil, mp, waitRet, lastRes, rank, concSince>>)
  /\ U(<<pend, R, ctlPending, ws, epoch, concNow, concMax, qclosed, pcancel, overlap, ref, started, tune>>)
  /\ U(miscVars)

OnExit(e) ==
  /\ IF e.job \in Jobs
       THEN /\ exits' = [exits EXCEPT ![e.job] = @ + 1]
            /\ exitAt' = [exitAt EXCEPT ![e.job] = l]
       ELSE U(<<exits, exitAt>>)
  /\ lastExitAt' = l
  /\ U(<<sub, addCall, addRet, enters, enterAt, deqd, closeStarted, closeNil, mp, waitRet, lastRes, rank, concSince, consOf>>)
  /\ U(ctlVars)
  /\ U(<<lastDeqAt, rr, rrPrev, crashed, raced, ad>>)

OnDeq(e) ==
  /\ deqd' = [j \in Jobs |-> deqd[j] \/ j = e.job]
  /\ rr' = IF e.job \in Jobs /\ Len(hdr.queues) > 0 THEN (QOf(e.job) % Len(hdr.queues)) + 1 ELSE rr
  /\ lastDeqAt' = l /\ rrPrev' = rr
  /\ U(<<sub, addCall, addRet, enters, exits, enterAt, exitAt, closeStarted, closeNil, mp, waitRet, lastRes, rank, concSince, consOf>>)
  /\ U(ctlVars)
  /\ U(<<lastExitAt, crashed, raced, ad>>)

\* adapter calls (recording adapter): enq / deq / ack / purge
OnAd(e) ==
  /\ ad' =
       IF e.op = "enq" /\ e.ok THEN [ad EXCEPT !.pending = Append(@, e.eseq), !.enq = @ \cup {e.eseq}, !.notified = @ + (IF e.n > 0 THEN 1 ELSE 0),
                                                \* an entry put into the adapter behind the worker's back (no Add, no subscriber told): nobody has
                                                \* announced it, the worker owes it nothing until the next announcement
                                                !.unann = IF e.job \notin Jobs /\ e.n = 0 THEN @ \cup {e.eseq} ELSE {}]
       ELSE IF e.op = "deq" /\ e.ok /\ e.ack = "" THEN          \* removed without an acknowledgement id: gone for good
            [ad EXCEPT !.pending = SelectSeq(@, LAMBDA x : x # e.eseq), !.lost = @ \cup {e.eseq}]
       ELSE IF e.op = "deq" /\ e.ok THEN
            [ad EXCEPT !.pending = SelectSeq(@, LAMBDA x : x # e.eseq), !.unacked = @ \cup {<<e.ack, e.eseq, e.job>>}, !.issued = @ \cup {e.ack}]
       ELSE IF e.op = "ack" THEN
            LET known == \E u \in ad.unacked : u[1] = e.ack
                u0 == CHOOSE u \in ad.unacked : u[1] = e.ack
                \* acknowledged although the worker function has not returned for it - or will never run for it (an entry that is no job of
                \* this program: undecodable, foreign, already closed)
                early == IF known THEN (IF u0[3] \in Jobs THEN (IF exits[u0[3]] = 0 THEN 1 ELSE 0) ELSE 1) ELSE 0
            IN IF known /\ ~e.refused THEN [ad EXCEPT !.unacked = @ \ {u0}, !.acked = @ \cup {u0}, !.earlyack = @ + early]
               ELSE IF known THEN [ad EXCEPT !.earlyack = @ + early]
               ELSE [ad EXCEPT !.badack = @ + 1]
       ELSE IF e.op = "purge" THEN [ad EXCEPT !.pending = <<>>, !.purged = @ \cup Range(ad.pending)]
       ELSE ad
  /\ U(jobVars) /\ U(ctlVars)
  /\ U(<<lastExitAt, lastDeqAt, rr, rrPrev, crashed, raced>>)

OnOther(e) ==
  /\ crashed' = (crashed \/ e.ev = "crash")
  /\ raced' = (raced \/ e.ev = "race")
  /\ U(jobVars) /\ U(ctlVars)
  /\ U(<<lastExitAt, lastDeqAt, rr, rrPrev, ad>>)

Next ==
  /\ l <= Len(Trace)
  /\ l' = l + 1
  /\ E' = Trace[l]
  /\ LET e == Trace[l] IN
       IF e.ev = "reset" THEN Blank(e)
       ELSE /\ U(hdr)
            /\ CASE e.ev = "call" -> OnCall(e)
                 [] e.ev = "ret" -> OnRet(e)
                 [] e.ev = "enter" -> OnEnter(e)
                 [] e.ev = "exit" -> OnExit(e)
                 [] e.ev = "deq" -> OnDeq(e)
                 [] e.ev = "ad" -> OnAd(e)
                 [] OTHER -> OnOther(e)

Spec == Init /\ [][Next]_vars

\* every line must be consumed: checked as a POSTCONDITION
AllConsumed == TLCGet("stats").diameter - 1 = Len(Trace)

-----------------------------------------------------------------------------
(* The properties.  Each formula looks at the state reached after consuming E. *)

IsRet(op) == E.ev = "ret" /\ E.op = op
Quiescent == E.ev = "quiescent"
\* the harness found the system at rest and the control history leaves no doubt that the worker is running
RunningAtRest == Quiescent /\ ws = "running" /\ E.wss = "Running" /\ ~overlap
NoUnknown == \A j \in Jobs : sub[j] # "unk" /\ sub[j] # "calling"

---- \* C01 exactly once / never
C01_AtMostOnce == \A j \in Jobs : enters[j] <= 1
C01_Known == E.ev = "enter" => E.job \in Jobs
C01_NoRejected == \A j \in Jobs : sub[j] = "rej" => enters[j] = 0
C01_NotBeforeSubmit == \A j \in Jobs : enters[j] > 0 => sub[j] # "none"
\* a job is never started after a Close on its handle has returned nil
C01_NoCancelled == E.ev = "enter" /\ E.job \in Jobs => ~closeNil[E.job]
\* (episodes with hdr.wsids choose IDs with white space around them: an ID is an opaque string)
RawId(j) == IF hdr.wsids THEN " id-" \o ToString(j) \o "\t" ELSE "id-" \o ToString(j)
ExpectedId(j) == IF BatchOf(j) # 0 THEN "g:" \o RawId(j) ELSE RawId(j)
C01_Identity == E.ev = "enter" /\ E.job \in Jobs =>
                   \* (E.idgen: an ID of the worker's generator that no other job of the episode carries)
                   IF hdr.idgen /\ (BatchOf(E.job) = 0 \/ hdr.wk = "plain") /\ ~IsAdapterQ(QOf(E.job)) THEN E.idgen ELSE E.id = ExpectedId(E.job)
C07_Identity == C01_Identity
C01_AtRest == RunningAtRest => \A j \in Jobs : Accepted(j) /\ ~Excused(j) => enters[j] = 1 /\ exits[j] = 1

---- \* C02 bounded parallelism
C02_Bound == Inflight # {} => Cardinality(Inflight) <= Max({concSince[j] : j \in Inflight})
C02_Peak == Quiescent => E.peak <= concMax
\* once TunePool(n) has returned and the jobs dispatched before it have finished, at most n jobs run simultaneously
\* (gated traces: the dispatches are visible as dequeues)
C02_TuneBound == Gated /\ tune.n > 0 /\ (\A j \in tune.old : exits[j] >= 1) => Cardinality(Inflight) <= tune.n

---- \* C03 progress (finite-trace form: at rest nothing accepted is left, nobody sleeps)
\* entries put into an adapter behind the worker's back and not announced since (see OnAd)
UnannPending == Cardinality({i \in DOMAIN ad.pending : ad.pending[i] \in ad.unann})
C03_NoStall == RunningAtRest /\ NoUnknown => /\ E.pending = UnannPending /\ E.processing = 0
                                             /\ \A j \in Jobs : Accepted(j) /\ ~Excused(j) => exits[j] = 1
C03_NoBlockedClient == RunningAtRest /\ NoUnknown /\ UnannPending = 0 => E.blocked = <<>>
C03_NoStuckProcessing == Quiescent => E.processing = 0 /\ Inflight = {}

---- \* C04 order
prevExitAt == lastExitAt
Precedes(a, b) == /\ a # b /\ QOf(a) = QOf(b) /\ addRet[a] # 0 /\ sub[a] = "acc"
                  /\ IF IsPrioQ(QOf(a))
                       THEN PrioOf(a) < PrioOf(b) \/ (PrioOf(a) = PrioOf(b) /\ addRet[a] < addCall[b])
                       ELSE addRet[a] < addCall[b]
\* gated traces: at the dequeue of b every job that precedes it in its queue's order and was surely pending has left the queue
C04_DequeueOrder == E.ev = "deq" /\ E.job \in Jobs =>
     \A a \in Jobs : Precedes(a, E.job) /\ addRet[a] < l - 1 /\ ~mp[a] /\ ~mp[E.job]
                     => deqd[a]
\* concurrency 1 throughout: the execution order is the queue order
C04_SerialOrder == E.ev = "enter" /\ E.job \in Jobs /\ concMax = 1 =>
     \A a \in Jobs : Precedes(a, E.job) /\ ~Excused(a) /\ ~mp[E.job]
                     /\ (IsPrioQ(QOf(a)) => (prevExitAt # 0 /\ addRet[a] < prevExitAt))
                     => enters[a] >= 1

---- \* C05 handles
C05_NotEarly == E.ev = "ret" /\ E.op \in {"Wait", "Result"} /\ E.res # "nohandle" /\ E.job \in Jobs => SettledStrict(E.job)
C05_BatchNotEarly == E.ev = "ret" /\ E.op \in {"BatchWait", "BatchRead"} /\ E.res # "nohandle" => \A j \in ItemsOf(E.b) : SettledStrict(j)
\* at rest nobody sleeps on a handle whose work is done
HandleDone(pc) == CASE pc.op \in {"Wait", "Result", "Drain"} -> pc.job \in Jobs /\ (exits[pc.job] >= 1 \/ closeNil[pc.job])
                    [] pc.op \in {"BatchWait", "BatchRead"} -> \A j \in ItemsOf(pc.b) : exits[j] >= 1 \/ closeNil[j] \/ sub[j] = "rej"
                    [] OTHER -> FALSE
\* ... and on a worker that is running and at rest (no goroutine can move any more; every queue open) nobody sleeps on a handle at all:
\* whatever the handle still waits for will never happen
C05_NoSleeper == RunningAtRest /\ (\A q \in Queues : qclosed[q] = "open") =>
                    \A c \in Clients : pend[c].op \in {"Wait", "Result", "Drain", "BatchWait", "BatchRead"} => ~(\E i \in DOMAIN E.blocked : E.blocked[i] = c)
C05_Returns == Quiescent => \A c \in Clients : pend[c].op # "none" /\ (\E i \in DOMAIN E.blocked : E.blocked[i] = c) => ~HandleDone(pend[c])

---- \* C06 barriers
C06_WUF == IsRet("WUF") /\ R.clean => \A j \in R.snap : SettledStrict(j)
C06_Drained == E.ev = "ret" /\ E.op \in {"PauseAndWait", "Stop", "WaitAndStop"} /\ E.res = "nil" /\ (R.solo \/ R.quiet) =>
                  IF Gated THEN Inflight = {} ELSE R.entered \cap Inflight = {}
\* at rest no barrier caller sleeps although nothing is in flight (and, on a running worker, nothing is pending)
C06_Returns == Quiescent => \A c \in Clients :
                  pend[c].op \in BarrierOps /\ (\E i \in DOMAIN E.blocked : E.blocked[i] = c)
                  => ~(E.processing = 0 /\ (E.pending = 0 \/ (pend[c].solo /\ pend[c].op \in {"PauseAndWait", "Stop", "Restart"})
                                              \* on a worker that is paused or stopped at rest a barrier waits for the jobs in flight only
                                              \/ E.wss \in {"Paused", "Stopped"}))

---- \* C07 own outcome, panics contained
ExpRes(j) == IF exits[j] = 0 \/ hdr.wk = "plain" THEN <<0, "", 0>>      \* a plain worker's handle carries no outcome
             ELSE IF OutOf(j) = "ok" THEN <<IF hdr.wk = "result" THEN j * 10 + 7 ELSE 0, "", 0>>
             ELSE IF OutOf(j) = "err" THEN <<0, "e", j>> ELSE <<0, "p", j>>
C07_Own == IsRet("Result") /\ E.res = "val" /\ E.job \in Jobs => <<E.v, E.ecls, E.ekey>> = ExpRes(E.job)
C07_Same == IsRet("Result") /\ E.res = "val" /\ E.job \in Jobs /\ lastRes[E.job] # <<>> => <<E.v, E.ecls, E.ekey>> = lastRes[E.job]
C07_NoCrash == ~crashed
FailedJobs == {j \in Jobs : exits[j] >= 1 /\ (OutOf(j) = "panic" \/ (OutOf(j) = "err" /\ hdr.wk # "plain"))}
\* (flood episodes log the quiescence line only: thousands of failing jobs, nobody reads Errs())
C07_NotDisabled == Quiescent /\ hdr.quiet => E.processing = 0 /\ E.pending = 0 /\ E.blocked = <<>> /\ E.fail + E.succ = E.sub
C07_FailCount == Quiescent /\ Inflight = {} /\ ~hdr.quiet => E.fail = Cardinality(FailedJobs) /\ E.succ = Cardinality({j \in Jobs : exits[j] >= 1}) - Cardinality(FailedJobs)

---- \* C08 batches
Executed(b) == {j \in ItemsOf(b) : exits[j] >= 1}
C08_Stream == IsRet("BatchRead") /\ E.res = "closed" /\ hdr.wk = "result" =>
                 /\ Len(E.items) = Cardinality(Executed(E.b))
                 /\ \A j \in Executed(E.b) : \E i \in DOMAIN E.items :
                        E.items[i].k = j /\ <<E.items[i].v, E.items[i].ecls, E.items[i].ekey>> = ExpRes(j)
C08_ErrStream == IsRet("BatchRead") /\ E.res = "closed" /\ hdr.wk = "err" =>
                 /\ Len(E.items) = Cardinality(Executed(E.b) \cap FailedJobs)
                 /\ \A j \in Executed(E.b) \cap FailedJobs : \E i \in DOMAIN E.items : E.items[i].ekey = j
C08_NoCrash == ~crashed
\* the batch's Wait (and reading its stream to the end) returns once every item has finished, was cancelled or was rejected:
\* at rest nobody is still blocked in it then
C08_WaitReturns == Quiescent => \A c \in Clients : pend[c].op \in {"BatchWait", "BatchRead"} /\ (\E i \in DOMAIN E.blocked : E.blocked[i] = c)
                                   => ~HandleDone(pend[c])
C08_PendingZeroAtWait == IsRet("BatchWait") /\ E.res # "nohandle" => E.pendingb = 0
C08_PendingBounds == IsRet("BatchPending") /\ E.res = "val" =>
                 /\ E.v >= 0 /\ E.v <= Cardinality(ItemsOf(E.b))
                 /\ E.v >= Cardinality({j \in ItemsOf(E.b) : sub[j] = "acc" /\ exits[j] = 0 /\ ~closeStarted[j] /\ ~mp[j]})
C08_Closes == Quiescent => \A c \in Clients : pend[c].op = "BatchRead" /\ (\E i \in DOMAIN E.blocked : E.blocked[i] = c)
                              => \E j \in ItemsOf(pend[c].b) : ~(exits[j] >= 1 \/ closeNil[j] \/ sub[j] = "rej")

---- \* C09 paused / stopped starts nothing
C09_NoStart == E.ev = "enter" => epoch # "strict"
C09_PauseBound == epoch = "pause" => pauseStarts <= concMax
C09_Survive == RunningAtRest /\ NoUnknown => \A j \in Jobs : Accepted(j) /\ ~Excused(j) => exits[j] = 1

---- \* C10 cancel / purge / queue close
C10_CloseWins == /\ (E.ev = "enter" /\ E.job \in Jobs => ~closeNil[E.job])
                 /\ (IsRet("Close") /\ E.res = "nil" /\ E.job \in Jobs => enters[E.job] = exits[E.job])
C10_CloseCodes == IsRet("Close") /\ E.job \in Jobs =>
                    /\ (R.closedBefore => E.res = "ErrJobAlreadyClosed")
                    /\ (E.res \in {"nil", "ErrJobProcessing", "ErrJobAlreadyClosed", "nohandle"})
C10_QClose == IsRet("Add") /\ E.job \in Jobs /\ R.qclosedBefore => ~E.ok
C10_NoCrash == ~crashed
\* nothing is silently dropped: at rest every accepted job has run, or is closed, or is still counted as pending
Limbo == {j \in Jobs : Accepted(j) /\ enters[j] = 0 /\ E.jst[ToString(j)] \notin {"Closed", ""}}     \* "": no handle (batch item)
C10_NoDrop == Quiescent /\ NoUnknown /\ (\A q \in Queues : ~IsAdapterQ(q)) => Cardinality(Limbo) <= E.pending
\* a batch submitted to a queue whose Close had returned consists of rejected items only: waiting for it or reading it to its end returns
C10_BatchReleased == Quiescent => \A c \in Clients : pend[c].op \in {"BatchWait", "BatchRead"} /\ (\E i \in DOMAIN E.blocked : E.blocked[i] = c)
                                     => \E j \in Jobs : BatchOf(j) = pend[c].b /\ sub[j] # "rej"
C10_Released == Quiescent => \A c \in Clients : pend[c].op \in {"Wait", "Result"} /\ (\E i \in DOMAIN E.blocked : E.blocked[i] = c)
                               /\ pend[c].job \in Jobs => ~closeNil[pend[c].job]

---- \* C11 acknowledge discipline
C11_AckIssued == ad.badack = 0
C11_AckAfter == ad.earlyack = 0
\* every accepted entry is processed completely (acked after exit), or pending, or delivered-unacked
C11_NoLoss == \A s \in ad.enq : (\E i \in DOMAIN ad.pending : ad.pending[i] = s) \/ (\E u \in ad.unacked \cup ad.acked : u[2] = s) \/ s \in ad.purged
\* at rest a running worker has taken everything out of the adapter and acknowledged what it has run completely
C11_Drained == RunningAtRest /\ NoUnknown /\ (\E q \in Queues : IsAdapterQ(q)) => Range(ad.pending) \subseteq ad.unann
\* recovery: entries already held by the adapter when the worker is bound are processed without any further call
C11_Recovery == RunningAtRest => \A i \in DOMAIN hdr.preload : hdr.preload[i] \in Jobs => exits[hdr.preload[i]] >= 1

---- \* C12 isolation of bad entries (fidelity of payloads: see the codec log, CodecOK)
C12_NoBadRun == E.ev = "enter" => E.job \in Jobs
C12_IdKept == E.ev = "enter" /\ E.job \in Jobs /\ IsAdapterQ(QOf(E.job)) => E.id = ExpectedId(E.job)
C12_ValidAllRun == RunningAtRest /\ NoUnknown /\ (\E q \in Queues : IsAdapterQ(q)) => \A j \in Jobs : Accepted(j) /\ ~Excused(j) => exits[j] = 1
C12_Codec == E.ev = "codec" => E.ok

---- \* C13 distributed consumers
C13_ExactlyOne == \A j \in Jobs : enters[j] <= 1
C13_AllProcessed == RunningAtRest /\ NoUnknown /\ (hdr.consumers > 1 \/ \E q \in Queues : hdr.queues[q] \in {"dfifo", "dprio"}) => \A j \in Jobs : Accepted(j) /\ ~Excused(j) => exits[j] = 1
\* what the adapter already holds when the worker is bound is processed, driven by the bind alone
C13_Preloaded == RunningAtRest /\ NoUnknown => \A i \in DOMAIN hdr.preload : hdr.preload[i] \in Jobs => exits[hdr.preload[i]] >= 1
C13_Submitted == Quiescent /\ (\E q \in Queues : hdr.queues[q] \in {"dfifo", "dprio"}) => \A i \in DOMAIN E.csub : E.csub[i] = ad.notified
C13_Bound == \A c \in 0..(hdr.consumers - 1) : Cardinality({j \in Inflight : consOf[j] = c}) <= concMax
C13_NoLoss == C11_NoLoss

---- \* C14 lifecycle machine
IsCtlRet == E.ev = "ret" /\ (E.op \in ControlOps \/ E.op = "TunePool") /\ E.op # "CancelCtx"
\* (which of its two errors TunePool reports when both apply - not running, and the same value - is pinned down nowhere)
C14_Result == (IsCtlRet /\ R.ref # "unknown") =>
                 (E.res = RefRes(R.ref, E.op, R.same) \/ (E.op = "TunePool" /\ R.ref # "running" /\ R.same /\ E.res = "ErrSameConcurrency"))
C14_Status == IsCtlRet /\ R.ref # "unknown" => E.wss = StatusName(RefNext(R.ref, E.op))
\* the worker never reports Running while unable to process jobs: at rest nothing accepted is left over
C14_RunningMeansProcessing == Quiescent /\ ref = "running" /\ E.wss = "Running" /\ NoUnknown => E.pending = 0 /\ \A j \in Jobs : Accepted(j) /\ ~Excused(j) => exits[j] = 1
C14_RestAgrees == Quiescent /\ ref # "unknown" /\ ~pcancel => E.wss = StatusName(ref)
\* cancelling the configured context stops a started worker
C14_CtxStops == Quiescent /\ pcancel /\ started /\ ~overlap /\ E.blocked = <<>> => E.wss = "Stopped"
\* (whatever calls have overlapped: a worker that reports Running at rest has exactly one event loop, has drained its queues
\* and runs nothing; one that reports Stopped has no event loop left)
C14_OneLoop == Quiescent /\ E.wss = "Running" /\ hdr.family # "bind2" => E.cloop = 1
C14_RunningWorks == Quiescent /\ E.wss = "Running" /\ NoUnknown /\ hdr.family # "bind2" => E.pending = UnannPending /\ E.processing = 0
C14_StoppedHasNoLoop == Quiescent /\ E.wss = "Stopped" /\ E.blocked = <<>> => E.cloop = 0

---- \* C15 strategy (gated traces, when the contents of every queue are known for sure)
Certain == \A j \in Jobs : sub[j] \notin {"calling", "unk"} /\ ~mp[j]
PendBefore(q) == {j \in Jobs : QOf(j) = q /\ sub[j] = "acc" /\ (~deqd[j] \/ j = E.job)}
LenB(q) == Cardinality(PendBefore(q))
NQ == Len(hdr.queues)
CycFrom(c) == [k \in 1..NQ |-> ((c - 1 + k - 1) % NQ) + 1]
FirstNonEmpty(c) == LET hits == {k \in 1..NQ : LenB(CycFrom(c)[k]) > 0} IN
                    IF hits = {} THEN 0 ELSE CycFrom(c)[CHOOSE x \in hits : \A y \in hits : x <= y]
C15_Choice == E.ev = "deq" /\ E.job \in Jobs /\ Gated /\ Certain /\ NQ > 1 =>
     LET qb == QOf(E.job) IN
       \* (the cursor is reconstructed from the dequeues for a fixed set of queues: not when queues are bound during the episode)
       CASE hdr.strategy = "rr" -> hdr.nobind \/ qb = FirstNonEmpty(rrPrev)
         [] hdr.strategy = "max" -> \A q \in Queues : LenB(q) <= LenB(qb)
         [] hdr.strategy = "min" -> \A q \in Queues : LenB(q) > 0 => LenB(qb) <= LenB(q)
         [] OTHER -> TRUE
\* every bound queue is registered exactly once: the worker's pending count is the sum over its queues (also C17)
C15_RegisteredOnce == Quiescent => E.pending = SumSeq(E.qpending)

---- \* C16 status
C16_Forward == E.ev = "ret" /\ E.op \in {"Status", "Wait"} /\ E.res # "nohandle" /\ E.job \in Jobs => Rank(E.st) >= R.rankFloor
C16_InWF == E.ev \in {"enter", "exit"} /\ E.job \in Jobs => E.st = "Processing"
C16_ClosedAfterWait == E.ev = "ret" /\ E.op \in {"Status", "Wait"} /\ E.res # "nohandle" /\ E.job \in Jobs /\ (R.waitedBefore \/ E.op = "Wait") => E.st = "Closed"
C16_AtRest == Quiescent => \A j \in Jobs : exits[j] >= 1 /\ E.jst[ToString(j)] # "" => E.jst[ToString(j)] = "Closed"

---- \* C17 counters
C17_NonNeg == E.ev = "ret" /\ E.op \in {"NumPending", "QPending", "NumProcessing", "NumIdle"} => E.v >= 0
C17_PendingBound == IsRet("QPending") => E.v <= Cardinality({j \in Jobs : QOf(j) = E.qi /\ sub[j] \in {"calling", "acc", "unk"} /\ exits[j] = 0})
C17_WorkerPendingBound == IsRet("NumPending") => E.v <= Cardinality({j \in Jobs : sub[j] \in {"calling", "acc", "unk"} /\ exits[j] = 0})
C17_ProcessingBound == /\ IsRet("NumProcessing") => E.v <= concMax
                       /\ E.ev \in {"call", "ret", "enter", "exit", "deq", "quiescent"} => E.curmax <= concMax        \* (gated: the counter at every hook)
C17_MetricsBound == IsRet("Metrics") => /\ E.msub <= Cardinality({j \in Jobs : sub[j] # "none"})
                                        /\ E.mcomp <= Cardinality({j \in Jobs : exits[j] >= 1})
                                        /\ E.msucc + E.mfail <= Cardinality({j \in Jobs : exits[j] >= 1})
C17_ExactAtRest == Quiescent =>
     /\ E.pending = SumSeq(E.qpending)
     /\ E.pending >= 0 /\ E.processing = 0
     /\ E.comp = E.succ + E.fail
     /\ E.comp = Cardinality({j \in Jobs : exits[j] >= 1})
     /\ (NoUnknown /\ (\A q \in Queues : ~IsAdapterQ(q)) => E.sub = Cardinality({j \in Jobs : Accepted(j)}))
     /\ (Gated /\ NoUnknown => \A q \in Queues : q \in DOMAIN E.qpending /\ ~IsAdapterQ(q) =>    \* (a queue the episode never got to bind has no length)
            E.qpending[q] = Cardinality({j \in Jobs : QOf(j) = q /\ Accepted(j) /\ ~deqd[j] /\ ~mp[j]})
            \/ \E j \in Jobs : QOf(j) = q /\ mp[j])

---- \* C18 pool and goroutines
C18_PoolBound == Quiescent /\ ~overlap => E.cpool <= concMax
C18_IdleAtLeastOne == RunningAtRest => E.idle >= 1
\* idle workers are worker goroutines: never more of them than the largest concurrency configured
C18_IdleBound == IsRet("NumIdle") => E.v <= concMax
MinIdle == Max({(Min(concNow) * (IF hdr.ratio = 0 THEN 1 ELSE hdr.ratio)) \div 100, 1})
C18_Trimmed == RunningAtRest /\ hdr.expiry > 0 /\ E.settled => E.idle <= Max({(Max(concNow) * (IF hdr.ratio = 0 THEN 1 ELSE hdr.ratio)) \div 100, 1})
C18_NoLeak == Quiescent /\ ~overlap /\ ws = "stopped" /\ E.wss = "Stopped" /\ E.blocked = <<>> => E.cloop = 0 /\ E.cpool = 0 /\ E.creaper = 0 /\ E.cctxl = 0
\* TunePool (and trimming) neither loses nor duplicates jobs
C18_KeepsJobs == /\ \A j \in Jobs : enters[j] <= 1
                 /\ RunningAtRest /\ NoUnknown => \A j \in Jobs : Accepted(j) /\ ~Excused(j) => exits[j] = 1
C18_OneLoop == RunningAtRest /\ ~overlap => E.cloop = 1 /\ E.creaper = (IF hdr.expiry > 0 THEN 1 ELSE 0) /\ E.cctxl <= (IF hdr.ctx THEN 1 ELSE 0)

---- \* a panic of the library that kills the process is a failure of whatever the episode was to show: the calls in progress never
\* return a result (C14), accepted jobs are never run (C01, C03), barriers never return (C06), nothing is stopped or trimmed (C18), ...
C01_NoCrash == ~crashed
C03_NoCrash == ~crashed
C05_NoCrash == ~crashed      \* (a panic of the library takes every waiter on a handle with it)
C06_NoCrash == ~crashed
C09_NoCrash == ~crashed
C11_NoCrash == ~crashed
C12_NoCrash == ~crashed      \* (a panic while an entry is decoded or dispatched: the payload never reaches the worker function)
C13_NoCrash == ~crashed
C14_NoCrash == ~crashed
C18_NoCrash == ~crashed

---- \* C19
C19_NoRace == ~raced
=============================================================================
